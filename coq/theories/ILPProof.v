(** Property C05: the integer program of ExactAlgorithmPulp is a correct formulation of the consensus
    problem.  Every ranking with ties that respects the component order is a feasible point with
    objective = its generalized Kemeny score; every feasible point decodes (by the source's decoder) into a
    ranking with ties whose score is the objective.  Hence decoding ANY optimal feasible point gives a global
    optimum.  The solver (CBC) is outside the model: that it returns an optimal feasible point is the
    remaining assumption, and feasibility of its answer is checked on every run. *)
From Corankco Require Import Prelude Scheme Rank KemenySpec GroupSort OptTheory Partition PartitionProof ConsistentProof ILP.
From Coq Require Import Sorting.Sorted.
Local Open Scope Z_scope.

(** * membership in the generated lists *)
Lemma in_all_vars n a : In a (all_vars n) <->
  match a with X i j => (i < n)%nat /\ (j < n)%nat /\ i <> j | T i j => (i < j < n)%nat end.
Proof.
  unfold all_vars. rewrite in_flat_map. split.
  - intros (i & Hi & H). apply in_flat_map in H as (j & Hj & H). apply in_seq in Hi, Hj.
    destruct (Nat.eqb_spec i j) as [E|E]; [destruct H|]. destruct H as [<-|H]; [lia|].
    destruct (Nat.ltb_spec i j) as [L|L]; [|destruct H]. destruct H as [<-|[]]. lia.
  - destruct a as [i j|i j].
    + intros (Hi & Hj & Hn). exists i. split; [apply in_seq; lia|]. apply in_flat_map. exists j. split; [apply in_seq; lia|].
      destruct (Nat.eqb_spec i j); [contradiction|]. left; reflexivity.
    + intros H. exists i. split; [apply in_seq; lia|]. apply in_flat_map. exists j. split; [apply in_seq; lia|].
      destruct (Nat.eqb_spec i j); [lia|]. right. destruct (Nat.ltb_spec i j); [left; reflexivity|lia].
Qed.

Definition row_one (i j : nat) : row := mkRow [(1, X i j); (1, X j i); (1, T i j)] true 1.

Lemma in_binary_rows n r : In r (binary_rows n) <-> exists i j, (i < j < n)%nat /\ r = row_one i j.
Proof.
  unfold binary_rows. rewrite in_flat_map. split.
  - intros (i & Hi & H). apply in_map_iff in H as (j & <- & Hj). apply in_seq in Hi, Hj. exists i, j. split; [lia|reflexivity].
  - intros (i & j & H & ->). exists i. split; [apply in_seq; lia|]. apply in_map_iff. exists j. split; [reflexivity|apply in_seq; lia].
Qed.

Lemma in_trans_rows n r : In r (trans_rows n) <->
  exists i j k, (i < n)%nat /\ (j < n)%nat /\ (k < n)%nat /\ j <> i /\ k <> i /\ k <> j /\ In r (trans_rows_ijk i j k).
Proof.
  unfold trans_rows. rewrite in_flat_map. split.
  - intros (i & Hi & H). apply in_flat_map in H as (j & Hj & H).
    destruct (Nat.eqb_spec j i) as [E|E]; [destruct H|]. apply in_flat_map in H as (k & Hk & H).
    destruct (Nat.eqb_spec k i) as [E1|E1]; [destruct H|]. destruct (Nat.eqb_spec k j) as [E2|E2]; [destruct H|].
    cbn [orb] in H. apply in_seq in Hi, Hj, Hk. exists i, j, k. repeat split; try lia; exact H.
  - intros (i & j & k & Hi & Hj & Hk & E & E1 & E2 & H). exists i. split; [apply in_seq; lia|].
    apply in_flat_map. exists j. split; [apply in_seq; lia|]. destruct (Nat.eqb_spec j i); [contradiction|].
    apply in_flat_map. exists k. split; [apply in_seq; lia|].
    destruct (Nat.eqb_spec k i); [contradiction|]. destruct (Nat.eqb_spec k j); [contradiction|]. exact H.
Qed.

(** [i] belongs to a group listed strictly before the group of [j] *)
Definition earlier (P : list (list nat)) (i j : nat) : Prop :=
  exists P1 G P2, P = P1 ++ G :: P2 /\ In i G /\ In j (concat P2).

Lemma earlier_cons G P i j : earlier (G :: P) i j <-> (In i G /\ In j (concat P)) \/ earlier P i j.
Proof.
  split.
  - intros (P1 & G0 & P2 & E & Hi & Hj). destruct P1 as [|G1 P1]; cbn [app] in E; inversion E; subst.
    + left. split; assumption.
    + right. exists P1, G0, P2. repeat split; assumption.
  - intros [[Hi Hj]|(P1 & G0 & P2 & -> & Hi & Hj)].
    + exists [], G, P. repeat split; assumption.
    + exists (G :: P1), G0, P2. repeat split; assumption.
Qed.

Lemma in_scc_rows P r : In r (scc_rows P) <-> exists i j, earlier P i j /\ In r (scc_rows_pair i j).
Proof.
  induction P as [|G P IH].
  - cbn [scc_rows]. split; [intros []|]. intros (i & j & (P1 & G0 & P2 & E & _) & _). destruct P1; discriminate.
  - cbn [scc_rows]. rewrite in_app_iff, IH. split.
    + intros [H|(i & j & He & H)].
      * apply in_flat_map in H as (G' & HG' & H). apply in_flat_map in H as (i & Hi & H). apply in_flat_map in H as (j & Hj & H).
        exists i, j. split; [|exact H]. apply earlier_cons. left. split; [exact Hi|]. apply in_concat. exists G'. split; assumption.
      * exists i, j. split; [apply earlier_cons; right; exact He|exact H].
    + intros (i & j & He & H). apply earlier_cons in He as [[Hi Hj]|He].
      * left. apply in_concat in Hj as (G' & HG' & Hj). apply in_flat_map. exists G'. split; [exact HG'|].
        apply in_flat_map. exists i. split; [exact Hi|]. apply in_flat_map. exists j. split; [exact Hj|exact H].
      * right. exists i, j. split; assumption.
Qed.

Lemma earlier_bid P i j : NoDup (concat P) -> earlier P i j -> bid_from 0 P i < bid_from 0 P j.
Proof.
  intros Nd (P1 & G & P2 & -> & Hi & Hj). rewrite concat_app in Nd. cbn [concat] in Nd.
  destruct (NoDup_app_inv _ _ Nd) as (_ & N2 & D1). destruct (NoDup_app_inv _ _ N2) as (_ & _ & D2).
  assert (Hi1 : ~ In i (concat P1)) by (intros H; apply (D1 i H); apply in_or_app; left; exact Hi).
  assert (Hj1 : ~ In j (concat P1)) by (intros H; apply (D1 j H); apply in_or_app; right; exact Hj).
  rewrite (bid_app_r P1 0 _ i Hi1), (bid_app_r P1 0 _ j Hj1). rewrite (bid_head' _ G P2 i Hi).
  cbn [bid_from]. assert (Mj : mem j G = false) by (apply mem_false; intros H; exact (D2 j H Hj)). rewrite Mj.
  pose proof (bid_lt P2 (0 + Z.of_nat (length P1) + 1) j Hj). lia.
Qed.

(** * feasibility, in logical form *)
Record Feas (n : nat) (P : list (list nat)) (v : var -> Z) : Prop := {
  f_bin : forall a, In a (all_vars n) -> v a = 0 \/ v a = 1;
  f_one : forall i j, (i < j < n)%nat -> v (X i j) + v (X j i) + v (T i j) = 1;
  f_t1 : forall i j k, (i < n)%nat -> (j < n)%nat -> (k < n)%nat -> j <> i -> k <> i -> k <> j ->
         v (X i j) + v (X j k) + v (tvar j k) - v (X i k) <= 1;
  f_t2 : forall i j k, (i < n)%nat -> (j < n)%nat -> (k < n)%nat -> j <> i -> k <> i -> k <> j ->
         v (X i j) + v (tvar i j) + v (X j k) - v (X i k) <= 1;
  f_t3 : forall i j k, (i < n)%nat -> (j < n)%nat -> (k < n)%nat -> j <> i -> k <> i -> k <> j ->
         2 * v (tvar i j) + 2 * v (tvar j k) - v (tvar i k) <= 3;
  f_scc : forall i j, earlier P i j ->
         v (X i j) = 1 /\ v (X j i) = 0 /\ ((i < j)%nat -> v (T i j) = 0) }.

Lemma lhs_eval v terms e rhs : lhs v (mkRow terms e rhs) = zsum (map (fun ct => fst ct * v (snd ct)) terms).
Proof. reflexivity. Qed.

Theorem feasible_Feas n P v : feasible n P v = true <-> Feas n P v.
Proof.
  unfold feasible, binary, ilp_rows. rewrite andb_true_iff, !forallb_forall. split.
  - intros [Hb Hr]. constructor.
    + intros a Ha. specialize (Hb a Ha). lia.
    + intros i j H. specialize (Hr (row_one i j)). unfold sat, row_one in Hr. cbn [r_eq r_rhs] in Hr. rewrite lhs_eval in Hr.
      cbn [map zsum fold_right fst snd] in Hr.
      assert (In (row_one i j) (binary_rows n ++ trans_rows n ++ scc_rows P)) as Hin.
      { apply in_or_app; left. apply in_binary_rows. exists i, j. split; [exact H|reflexivity]. }
      specialize (Hr Hin). lia.
    + intros i j k Hi Hj Hk E E1 E2.
      assert (Hin : In (mkRow [(1, X i j); (1, X j k); (1, tvar j k); (-1, X i k)] false 1) (binary_rows n ++ trans_rows n ++ scc_rows P)).
      { apply in_or_app; right. apply in_or_app; left. apply in_trans_rows. exists i, j, k. repeat split; try assumption. left; reflexivity. }
      specialize (Hr _ Hin). unfold sat in Hr. cbn [r_eq r_rhs] in Hr. rewrite lhs_eval in Hr. cbn [map zsum fold_right fst snd] in Hr. lia.
    + intros i j k Hi Hj Hk E E1 E2.
      assert (Hin : In (mkRow [(1, X i j); (1, tvar i j); (1, X j k); (-1, X i k)] false 1) (binary_rows n ++ trans_rows n ++ scc_rows P)).
      { apply in_or_app; right. apply in_or_app; left. apply in_trans_rows. exists i, j, k. repeat split; try assumption. right; left; reflexivity. }
      specialize (Hr _ Hin). unfold sat in Hr. cbn [r_eq r_rhs] in Hr. rewrite lhs_eval in Hr. cbn [map zsum fold_right fst snd] in Hr. lia.
    + intros i j k Hi Hj Hk E E1 E2.
      assert (Hin : In (mkRow [(2, tvar i j); (2, tvar j k); (-1, tvar i k)] false 3) (binary_rows n ++ trans_rows n ++ scc_rows P)).
      { apply in_or_app; right. apply in_or_app; left. apply in_trans_rows. exists i, j, k. repeat split; try assumption. right; right; left; reflexivity. }
      specialize (Hr _ Hin). unfold sat in Hr. cbn [r_eq r_rhs] in Hr. rewrite lhs_eval in Hr. cbn [map zsum fold_right fst snd] in Hr. lia.
    + intros i j He.
      assert (Hin : forall r, In r (scc_rows_pair i j) -> sat v r = true).
      { intros r Hr'. apply Hr. apply in_or_app; right. apply in_or_app; right. apply in_scc_rows. exists i, j. split; assumption. }
      pose proof (Hin _ (or_introl eq_refl)) as H1. pose proof (Hin _ (or_intror (or_introl eq_refl))) as H2.
      pose proof (Hin _ (or_intror (or_intror (or_introl eq_refl)))) as H3.
      unfold sat in H1, H2. cbn [r_eq r_rhs] in H1, H2. rewrite lhs_eval in H1, H2. cbn [map zsum fold_right fst snd] in H1, H2.
      split; [lia|]. split; [lia|]. intros L. apply Nat.ltb_lt in L. rewrite L in H3.
      unfold sat in H3. cbn [r_eq r_rhs] in H3. rewrite lhs_eval in H3. cbn [map zsum fold_right fst snd] in H3. lia.
  - intros F. split.
    + intros a Ha. destruct (f_bin _ _ _ F a Ha) as [E|E]; rewrite E; reflexivity.
    + intros r Hr. apply in_app_or in Hr as [Hr|Hr]; [|apply in_app_or in Hr as [Hr|Hr]].
      * apply in_binary_rows in Hr as (i & j & H & ->). unfold sat, row_one. cbn [r_eq r_rhs]. rewrite lhs_eval.
        cbn [map zsum fold_right fst snd]. pose proof (f_one _ _ _ F i j H). lia.
      * apply in_trans_rows in Hr as (i & j & k & Hi & Hj & Hk & E & E1 & E2 & Hr).
        pose proof (f_t1 _ _ _ F i j k Hi Hj Hk E E1 E2). pose proof (f_t2 _ _ _ F i j k Hi Hj Hk E E1 E2).
        pose proof (f_t3 _ _ _ F i j k Hi Hj Hk E E1 E2).
        destruct Hr as [<-|[<-|[<-|[]]]]; unfold sat; cbn [r_eq r_rhs]; rewrite lhs_eval; cbn [map zsum fold_right fst snd]; lia.
      * apply in_scc_rows in Hr as (i & j & He & Hr). destruct (f_scc _ _ _ F i j He) as (H1 & H2 & H3).
        destruct Hr as [<-|[<-|[<-|[]]]]; unfold sat; cbn [r_eq r_rhs]; try (rewrite lhs_eval; cbn [map zsum fold_right fst snd]; lia).
        destruct (Nat.ltb_spec i j) as [L|L]; cbn [r_eq r_rhs]; rewrite lhs_eval; cbn [map zsum fold_right fst snd]; [specialize (H3 L)|]; lia.
Qed.

(** * the objective is the score of any position function that agrees with the [x] variables *)
Lemma zsum_map_flat_map {A B} (g : B -> Z) (f : A -> list B) l :
  zsum (map g (flat_map f l)) = zsum (map (fun x => zsum (map g (f x))) l).
Proof. induction l as [|a l IH]; [reflexivity|]. cbn [flat_map map]. rewrite map_app, zsum_app, zsum_cons, IH. reflexivity. Qed.

Lemma ordpairs_seq_lt a n i j : In (i, j) (ordpairs (seq a n)) -> (a <= i < j)%nat /\ (j < a + n)%nat.
Proof.
  revert a; induction n as [|n IH]; intros a H; [destruct H|]. cbn [seq ordpairs] in H.
  apply in_app_or in H as [H|H].
  - apply in_map_iff in H as (y & E & Hy). inversion E; subst. apply in_seq in Hy. lia.
  - apply IH in H. lia.
Qed.

Definition objF (K : table) (v : var -> Z) (i j : nat) : Z :=
  if Nat.eqb i j then 0 else
    let '(b, _, t) := K i j in b * v (X i j) + (if (i <? j)%nat then t * v (T i j) else 0).

Lemma obj_value_double K n v : obj_value K n v = zsum (map (fun i => zsum (map (objF K v i) (seq 0 n))) (seq 0 n)).
Proof.
  unfold obj_value, objective. rewrite zsum_map_flat_map. apply zsum_map_ext. intros i _.
  rewrite zsum_map_flat_map. apply zsum_map_ext. intros j _. unfold objF.
  destruct (Nat.eqb i j); [reflexivity|]. destruct (K i j) as [[b a] t].
  destruct (i <? j)%nat; cbn [map zsum fold_right fst snd]; lia.
Qed.

Theorem obj_scoref K n v p :
  mirror K ->
  (forall a, In a (all_vars n) -> v a = 0 \/ v a = 1) ->
  (forall i j, (i < j < n)%nat -> v (X i j) + v (X j i) + v (T i j) = 1) ->
  (forall i j, (i < n)%nat -> (j < n)%nat -> i <> j -> (v (X i j) = 1 <-> p i < p j)) ->
  obj_value K n v = scoref K (seq 0 n) p.
Proof.
  intros M Hb H1 Hx. rewrite obj_value_double, double_sum_ordpairs.
  rewrite (zsum_map_ext (fun i => objF K v i i) (fun _ => 0)) by (intros i _; unfold objF; rewrite Nat.eqb_refl; reflexivity).
  assert (Z0 : forall l : list nat, zsum (map (fun _ => 0) l) = 0) by (induction l as [|a l IH]; [reflexivity|]; cbn [map]; rewrite zsum_cons, IH; reflexivity).
  rewrite Z0, Z.add_0_l. unfold scoref. apply zsum_map_ext. intros [i j] Hij. cbn [fst snd].
  apply ordpairs_seq_lt in Hij. assert (L : (i < j < n)%nat) by lia.
  unfold objF, pickf. destruct (Nat.eqb_spec i j) as [E|_]; [lia|]. destruct (Nat.eqb_spec j i) as [E|_]; [lia|].
  specialize (M i j). destruct (K i j) as [[b a] t]. rewrite M.
  destruct (Nat.ltb_spec i j) as [_|L']; [|lia]. destruct (Nat.ltb_spec j i) as [L'|_]; [lia|].
  pose proof (H1 i j L) as One.
  pose proof (Hx i j ltac:(lia) ltac:(lia) ltac:(lia)) as Xij. pose proof (Hx j i ltac:(lia) ltac:(lia) ltac:(lia)) as Xji.
  destruct (Hb (X i j) ltac:(apply in_all_vars; lia)) as [Bx|Bx];
  destruct (Hb (X j i) ltac:(apply in_all_vars; lia)) as [By|By];
  destruct (Hb (T i j) ltac:(apply in_all_vars; lia)) as [Bt|Bt]; try lia;
  rewrite Bx, By, Bt; destruct (Z.compare_spec (p i) (p j)) as [C|C|C]; try lia.
Qed.

(** * every position function that respects the component order is a feasible point *)
Definition v_p (p : posf) : var -> Z := fun a =>
  match a with
  | X i j => if p i <? p j then 1 else 0
  | T i j => if p i =? p j then 1 else 0
  end.

Lemma v_p_tvar p i j : v_p p (tvar i j) = if p i =? p j then 1 else 0.
Proof. unfold tvar. destruct (i <? j)%nat; cbn [v_p]; [reflexivity|]. rewrite (Z.eqb_sym (p j) (p i)). reflexivity. Qed.

Theorem encode_Feas n P p : (forall i j, earlier P i j -> p i < p j) -> Feas n P (v_p p).
Proof.
  intros HP. constructor.
  - intros [i j|i j] _; cbn [v_p]; [destruct (p i <? p j)|destruct (p i =? p j)]; auto.
  - intros i j _. cbn [v_p]. destruct (Z.ltb_spec (p i) (p j)); destruct (Z.ltb_spec (p j) (p i)); destruct (Z.eqb_spec (p i) (p j)); lia.
  - intros i j k _ _ _ _ _ _. rewrite v_p_tvar. cbn [v_p].
    destruct (Z.ltb_spec (p i) (p j)); destruct (Z.ltb_spec (p j) (p k)); destruct (Z.eqb_spec (p j) (p k)); destruct (Z.ltb_spec (p i) (p k)); lia.
  - intros i j k _ _ _ _ _ _. rewrite v_p_tvar. cbn [v_p].
    destruct (Z.ltb_spec (p i) (p j)); destruct (Z.ltb_spec (p j) (p k)); destruct (Z.eqb_spec (p i) (p j)); destruct (Z.ltb_spec (p i) (p k)); lia.
  - intros i j k _ _ _ _ _ _. rewrite !v_p_tvar.
    destruct (Z.eqb_spec (p i) (p j)); destruct (Z.eqb_spec (p j) (p k)); destruct (Z.eqb_spec (p i) (p k)); lia.
  - intros i j He. specialize (HP i j He). cbn [v_p].
    destruct (Z.ltb_spec (p i) (p j)); destruct (Z.ltb_spec (p j) (p i)); destruct (Z.eqb_spec (p i) (p j)); lia.
Qed.

Theorem encode_obj K n P p : mirror K -> (forall i j, earlier P i j -> p i < p j) ->
  obj_value K n (v_p p) = scoref K (seq 0 n) p.
Proof.
  intros M HP. pose proof (encode_Feas n P p HP) as F.
  apply obj_scoref; [exact M|exact (f_bin _ _ _ F)|exact (f_one _ _ _ F)|].
  intros i j _ _ _. cbn [v_p]. destruct (Z.ltb_spec (p i) (p j)); split; intros; try lia; discriminate.
Qed.

(** * every feasible point is a strict weak order, ranked by the number of predecessors *)
Lemma tvar_sym i j : i <> j -> tvar i j = tvar j i.
Proof. intros H. unfold tvar. destruct (Nat.ltb_spec i j); destruct (Nat.ltb_spec j i); try reflexivity; lia. Qed.

Section Decode.
  Variables (n : nat) (P : list (list nat)) (v : var -> Z).
  Hypothesis F : Feas n P v.

  Lemma bin_X i j : (i < n)%nat -> (j < n)%nat -> i <> j -> v (X i j) = 0 \/ v (X i j) = 1.
  Proof. intros. apply (f_bin _ _ _ F). apply in_all_vars. lia. Qed.
  Lemma bin_T i j : (i < n)%nat -> (j < n)%nat -> i <> j -> v (tvar i j) = 0 \/ v (tvar i j) = 1.
  Proof. intros. apply (f_bin _ _ _ F). apply in_all_vars. unfold tvar. destruct (Nat.ltb_spec i j); lia. Qed.

  Lemma one_hot i j : (i < n)%nat -> (j < n)%nat -> i <> j -> v (X i j) + v (X j i) + v (tvar i j) = 1.
  Proof.
    intros Hi Hj E. unfold tvar. destruct (Nat.ltb_spec i j) as [L|L].
    - apply (f_one _ _ _ F). lia.
    - pose proof (f_one _ _ _ F j i ltac:(lia)). lia.
  Qed.

  Definition ind (k j : nat) : Z := if Nat.eqb k j then 0 else if v (X k j) =? 1 then 1 else 0.
  Lemma defeats_ind j : defeats n v j = zsum (map (fun k => ind k j) (seq 0 n)).
  Proof. reflexivity. Qed.

  Lemma ind_X k j : (k < n)%nat -> (j < n)%nat -> k <> j -> ind k j = v (X k j).
  Proof.
    intros Hk Hj E. unfold ind. destruct (Nat.eqb_spec k j); [contradiction|].
    destruct (bin_X k j Hk Hj E) as [B|B]; rewrite B; reflexivity.
  Qed.

  Lemma before_lt i j : (i < n)%nat -> (j < n)%nat -> i <> j -> v (X i j) = 1 -> defeats n v i < defeats n v j.
  Proof.
    intros Hi Hj E Hx. rewrite !defeats_ind. apply (zsum_lt _ _ _ i).
    - intros k Hk. apply in_seq in Hk.
      destruct (Nat.eq_dec k i) as [->|Ei]; [unfold ind at 1; rewrite Nat.eqb_refl; rewrite (ind_X i j) by assumption; lia|].
      destruct (Nat.eq_dec k j) as [->|Ej].
      + unfold ind at 2; rewrite Nat.eqb_refl. rewrite (ind_X j i) by auto.
        pose proof (one_hot i j Hi Hj E). destruct (bin_X j i Hj Hi ltac:(auto)); destruct (bin_T i j Hi Hj E); lia.
      + rewrite (ind_X k i), (ind_X k j) by lia.
        pose proof (f_t1 _ _ _ F k i j ltac:(lia) Hi Hj ltac:(auto) ltac:(auto) ltac:(auto)).
        destruct (bin_X k i ltac:(lia) Hi Ei); destruct (bin_X k j ltac:(lia) Hj Ej); destruct (bin_T i j Hi Hj E); lia.
    - apply in_seq. lia.
    - unfold ind at 1. rewrite Nat.eqb_refl. rewrite (ind_X i j) by assumption. lia.
  Qed.

  Lemma tied_eq i j : (i < n)%nat -> (j < n)%nat -> i <> j -> v (tvar i j) = 1 -> defeats n v i = defeats n v j.
  Proof.
    intros Hi Hj E Ht. rewrite !defeats_ind. apply f_equal. apply map_ext_in. intros k Hk. apply in_seq in Hk.
    pose proof (one_hot i j Hi Hj E) as One.
    destruct (Nat.eq_dec k i) as [->|Ei].
    { unfold ind at 1; rewrite Nat.eqb_refl. rewrite (ind_X i j) by assumption.
      destruct (bin_X i j Hi Hj E); destruct (bin_X j i Hj Hi ltac:(auto)); lia. }
    destruct (Nat.eq_dec k j) as [->|Ej].
    { unfold ind at 2; rewrite Nat.eqb_refl. rewrite (ind_X j i) by auto.
      destruct (bin_X i j Hi Hj E); destruct (bin_X j i Hj Hi ltac:(auto)); lia. }
    rewrite (ind_X k i), (ind_X k j) by lia.
    pose proof (f_t1 _ _ _ F k i j ltac:(lia) Hi Hj ltac:(auto) ltac:(auto) ltac:(auto)) as A.
    pose proof (f_t1 _ _ _ F k j i ltac:(lia) Hj Hi ltac:(auto) ltac:(auto) ltac:(auto)) as B.
    rewrite (tvar_sym j i) in B by auto.
    destruct (bin_X k i ltac:(lia) Hi Ei); destruct (bin_X k j ltac:(lia) Hj Ej);
    destruct (bin_X i j Hi Hj E); destruct (bin_X j i Hj Hi ltac:(auto)); lia.
  Qed.

  Lemma X_iff_lt i j : (i < n)%nat -> (j < n)%nat -> i <> j -> (v (X i j) = 1 <-> defeats n v i < defeats n v j).
  Proof.
    intros Hi Hj E. split; [apply before_lt; assumption|]. intros L.
    pose proof (one_hot i j Hi Hj E) as One.
    destruct (bin_X i j Hi Hj E) as [B|B]; [|exact B]. exfalso.
    destruct (bin_X j i Hj Hi ltac:(auto)) as [B'|B'].
    - assert (v (tvar i j) = 1) as Ht by lia. pose proof (tied_eq i j Hi Hj E Ht). lia.
    - pose proof (before_lt j i Hj Hi ltac:(auto) B'). lia.
  Qed.

  Theorem feasible_obj K : mirror K -> obj_value K n v = scoref K (seq 0 n) (defeats n v).
  Proof.
    intros M. apply obj_scoref; [exact M|exact (f_bin _ _ _ F)|exact (f_one _ _ _ F)|exact X_iff_lt].
  Qed.
End Decode.

(** * the decoder of the source: sort by the count, close a bucket when the count changes *)
Definition le_snd (a b : nat * Z) : Prop := snd a <= snd b.

Lemma insert_item_perm it l : Permutation (insert_item it l) (it :: l).
Proof.
  induction l as [|a l IH]; [reflexivity|]. cbn [insert_item]. destruct (snd it <=? snd a); [reflexivity|].
  etransitivity; [apply perm_skip; exact IH|apply perm_swap].
Qed.
Lemma sort_items_perm l : Permutation (sort_items l) l.
Proof.
  induction l as [|a l IH]; [reflexivity|]. unfold sort_items in *. cbn [fold_right].
  etransitivity; [apply insert_item_perm|apply perm_skip; exact IH].
Qed.

Lemma insert_item_sorted it l : StronglySorted le_snd l -> StronglySorted le_snd (insert_item it l).
Proof.
  induction l as [|a l IH]; intros S; [repeat constructor|]. cbn [insert_item].
  apply StronglySorted_inv in S as [S Ha].
  destruct (Z.leb_spec (snd it) (snd a)) as [L|L].
  - constructor; [constructor; assumption|]. constructor; [exact L|].
    rewrite Forall_forall in *. intros b Hb. specialize (Ha b Hb). unfold le_snd in *. lia.
  - constructor; [apply IH; exact S|]. rewrite Forall_forall in *. intros b Hb.
    apply (Permutation_in _ (insert_item_perm it l)) in Hb as [<-|Hb]; [unfold le_snd; lia|apply Ha; exact Hb].
Qed.
Lemma sort_items_sorted l : StronglySorted le_snd (sort_items l).
Proof.
  induction l as [|a l IH]; [constructor|]. unfold sort_items in *. cbn [fold_right]. apply insert_item_sorted. exact IH.
Qed.

Lemma close_buckets_perm L : forall cur B, Permutation (concat (close_buckets L cur B)) (B ++ map fst L).
Proof.
  induction L as [|[e d] L IH]; intros cur B; [cbn; rewrite !app_nil_r; reflexivity|].
  cbn [close_buckets map fst]. destruct (d =? cur).
  - rewrite IH, <- app_assoc. reflexivity.
  - cbn [concat]. rewrite IH. reflexivity.
Qed.

Lemma close_buckets_cmp (p : nat -> Z) : forall L cur B k,
  StronglySorted le_snd L ->
  (forall it, In it L -> snd it = p (fst it) /\ cur <= snd it) ->
  (forall e, In e B -> p e = cur) ->
  NoDup (B ++ map fst L) -> 0 <= k ->
  forall e1 e2, In e1 (B ++ map fst L) -> In e2 (B ++ map fst L) ->
  Z.compare (bid_from k (close_buckets L cur B) e1) (bid_from k (close_buckets L cur B) e2) = Z.compare (p e1) (p e2).
Proof.
  induction L as [|[e d] L IH]; intros cur B k S HL HB Nd Hk e1 e2 H1 H2.
  - rewrite app_nil_r in H1, H2. cbn [close_buckets bid_from].
    apply mem_In in H1 as M1. apply mem_In in H2 as M2. rewrite M1, M2, (HB e1 H1), (HB e2 H2), !Z.compare_refl. reflexivity.
  - cbn [close_buckets]. apply StronglySorted_inv in S as [S Hd]. cbn [map fst] in *.
    destruct (HL (e, d) (or_introl eq_refl)) as [Ed Hc]. cbn [fst snd] in Ed, Hc.
    destruct (Z.eqb_spec d cur) as [E|E].
    + subst cur. apply IH; try assumption.
      * intros it Hit. apply HL. right; exact Hit.
      * intros e' He'. apply in_app_or in He' as [He'|[<-|[]]]; [apply HB; exact He'|symmetry; exact Ed].
      * rewrite <- app_assoc. exact Nd.
      * rewrite <- app_assoc. exact H1.
      * rewrite <- app_assoc. exact H2.
    + set (r' := close_buckets L d [e]).
      destruct (NoDup_app_inv _ _ Nd) as (_ & Nd' & Dj).
      assert (Hge : forall x, In x (e :: map fst L) -> d <= p x /\ k + 1 <= bid_from (k + 1) r' x).
      { intros x Hx. split.
        - destruct Hx as [<-|Hx]; [lia|]. apply in_map_iff in Hx as (it & <- & Hit).
          destruct (HL it (or_intror Hit)) as [Eit _]. rewrite Forall_forall in Hd. specialize (Hd it Hit). unfold le_snd in Hd. cbn [snd] in Hd. lia.
        - destruct (bid_from_range (k + 1) r' x ltac:(lia)) as [Eu|Hg]; [|exact Hg].
          apply bid_from_unranked in Eu; [|lia]. exfalso. apply Eu. unfold r'.
          eapply Permutation_in; [symmetry; apply close_buckets_perm|]. exact Hx. }
      assert (IH' : forall x y, In x (e :: map fst L) -> In y (e :: map fst L) ->
                Z.compare (bid_from (k + 1) r' x) (bid_from (k + 1) r' y) = Z.compare (p x) (p y)).
      { intros x y Hx Hy. apply (IH d [e] (k + 1)); try assumption; try lia.
        - intros it Hit. destruct (HL it (or_intror Hit)) as [Eit _]. split; [exact Eit|].
          rewrite Forall_forall in Hd. exact (Hd it Hit).
        - intros e' [<-|[]]. symmetry; exact Ed. }
      cbn [bid_from].
      assert (Split : forall x, In x (B ++ e :: map fst L) -> (mem x B = true /\ p x = cur) \/ (mem x B = false /\ In x (e :: map fst L))).
      { intros x Hx. apply in_app_or in Hx as [Hx|Hx].
        - left. split; [apply mem_In; exact Hx|apply HB; exact Hx].
        - right. split; [apply mem_false; intros Hb; exact (Dj x Hb Hx)|exact Hx]. }
      destruct (Split e1 H1) as [[M1 P1]|[M1 I1]]; destruct (Split e2 H2) as [[M2 P2]|[M2 I2]]; rewrite M1, M2.
      * rewrite P1, P2, !Z.compare_refl. reflexivity.
      * destruct (Hge e2 I2). transitivity Lt; [apply Z.compare_lt_iff; lia|symmetry; apply Z.compare_lt_iff; lia].
      * destruct (Hge e1 I1). transitivity Gt; [apply Z.compare_gt_iff; lia|symmetry; apply Z.compare_gt_iff; lia].
      * apply IH'; assumption.
Qed.

Lemma defeats_nonneg n v j : 0 <= defeats n v j.
Proof.
  unfold defeats. apply zsum_nonneg. intros z Hz. apply in_map_iff in Hz as (i & <- & _).
  destruct (Nat.eqb i j); [lia|]. destruct (v (X i j) =? 1); lia.
Qed.

(** the decoder ranks the elements by their number of predecessors *)
Theorem decode_spec n v :
  Permutation (concat (decode n v)) (seq 0 n) /\
  forall i j, (i < n)%nat -> (j < n)%nat ->
    Z.compare (bucket_id (decode n v) i) (bucket_id (decode n v) j) = Z.compare (defeats n v i) (defeats n v j).
Proof.
  unfold decode. set (items := map (fun j => (j, defeats n v j)) (seq 0 n)).
  assert (Pm : Permutation (map fst (sort_items items)) (seq 0 n)).
  { rewrite (Permutation_map fst (sort_items_perm items)). unfold items. rewrite map_map. cbn [fst]. rewrite map_id. reflexivity. }
  split.
  - rewrite close_buckets_perm. cbn [app]. exact Pm.
  - intros i j Hi Hj. unfold bucket_id. apply (close_buckets_cmp (defeats n v)).
    + apply sort_items_sorted.
    + intros it Hit. apply (Permutation_in _ (sort_items_perm items)) in Hit. unfold items in Hit.
      apply in_map_iff in Hit as (k & <- & _). cbn [fst snd]. split; [reflexivity|apply defeats_nonneg].
    + intros e [].
    + cbn [app]. eapply Permutation_NoDup; [symmetry; exact Pm|apply seq_NoDup].
    + lia.
    + cbn [app]. eapply Permutation_in; [symmetry; exact Pm|apply in_seq; lia].
    + cbn [app]. eapply Permutation_in; [symmetry; exact Pm|apply in_seq; lia].
Qed.

(** every feasible point decodes to a ranking with ties of all the elements whose generalized Kemeny score is the
    objective value *)
Theorem decode_score K n P v : mirror K -> Feas n P v ->
  wfU (seq 0 n) (decode n v) /\ score K (decode n v) = obj_value K n v.
Proof.
  intros M F. destruct (decode_spec n v) as [Pm Cmp]. split; [exact Pm|].
  rewrite (feasible_obj n P v F K M). rewrite (score_on_universe K (seq 0 n) _ M Pm).
  apply scoref_ext. intros i j Hi Hj. apply in_seq in Hi, Hj. apply Cmp; lia.
Qed.

(** * main theorem: decoding any optimal feasible point of the program gives a global optimum *)
Theorem ilp_optimal K n P v :
  mirror K -> is_partition_of (seq 0 n) P = true -> no_back_arcs K P = true ->
  feasible n P v = true ->
  (forall v', feasible n P v' = true -> obj_value K n v <= obj_value K n v') ->
  wfU (seq 0 n) (decode n v) /\ score K (decode n v) = opt K (seq 0 n) /\
  obj_value K n v = opt K (seq 0 n) /\ is_optimal K (seq 0 n) (decode n v).
Proof.
  intros M HP HB Hf Hmin. set (U := seq 0 n). assert (Nd : NoDup U) by apply seq_NoDup.
  apply feasible_Feas in Hf as F. destruct (decode_score K n P v M F) as [W E].
  destruct (is_partition_of_spec U P Nd HP) as [WP _].
  assert (NdP : NoDup (concat P)) by (eapply Permutation_NoDup; [symmetry; exact WP|exact Nd]).
  assert (NB : no_back K U (bucket_id P)).
  { eapply no_back_perm; [|apply no_back_arcs_spec; [exact M|exact HB]]. intros x Hx. eapply Permutation_in; [symmetry; exact WP|exact Hx]. }
  destruct (partition_admits_optimum K U P M Nd WP NB) as (c & Oc & _ & Rc).
  pose proof Oc as [Wc _]. apply (optimal_iff_opt K U c M Nd Wc) in Oc.
  assert (HPc : forall i j, earlier P i j -> bucket_id c i < bucket_id c j).
  { intros i j He. pose proof (earlier_bid P i j NdP He) as L. destruct He as (P1 & G & P2 & EP & Hi & Hj).
    apply Rc; [| |exact L]; eapply Permutation_in; try exact WP; unfold elems; rewrite EP, concat_app; cbn [concat];
      apply in_or_app; right; apply in_or_app; [left|right]; assumption. }
  pose proof (encode_Feas n P (bucket_id c) HPc) as Fc. apply feasible_Feas in Fc.
  pose proof (Hmin _ Fc) as Le. rewrite (encode_obj K n P (bucket_id c) M HPc) in Le. fold U in Le.
  rewrite <- (score_on_universe K U c M Wc), Oc in Le.
  pose proof (opt_lower K U (decode n v) M Nd W) as Ge.
  assert (Es : score K (decode n v) = opt K U) by lia.
  split; [exact W|]. split; [exact Es|]. split; [lia|]. apply optimal_iff_opt; assumption.
Qed.

(** the minimum of the program over its feasible points is the optimum of the consensus problem: it is reached *)
Theorem ilp_min_reached K n P :
  mirror K -> is_partition_of (seq 0 n) P = true -> no_back_arcs K P = true ->
  exists v, feasible n P v = true /\ obj_value K n v = opt K (seq 0 n) /\
            forall v', feasible n P v' = true -> obj_value K n v <= obj_value K n v'.
Proof.
  intros M HP HB. set (U := seq 0 n). assert (Nd : NoDup U) by apply seq_NoDup.
  destruct (is_partition_of_spec U P Nd HP) as [WP _].
  assert (NdP : NoDup (concat P)) by (eapply Permutation_NoDup; [symmetry; exact WP|exact Nd]).
  assert (NB : no_back K U (bucket_id P)).
  { eapply no_back_perm; [|apply no_back_arcs_spec; [exact M|exact HB]]. intros x Hx. eapply Permutation_in; [symmetry; exact WP|exact Hx]. }
  destruct (partition_admits_optimum K U P M Nd WP NB) as (c & Oc & _ & Rc).
  pose proof Oc as [Wc _]. apply (optimal_iff_opt K U c M Nd Wc) in Oc.
  assert (HPc : forall i j, earlier P i j -> bucket_id c i < bucket_id c j).
  { intros i j He. pose proof (earlier_bid P i j NdP He) as L. destruct He as (P1 & G & P2 & EP & Hi & Hj).
    apply Rc; [| |exact L]; eapply Permutation_in; try exact WP; unfold elems; rewrite EP, concat_app; cbn [concat];
      apply in_or_app; right; apply in_or_app; [left|right]; assumption. }
  exists (v_p (bucket_id c)). pose proof (encode_Feas n P (bucket_id c) HPc) as Fc.
  assert (Eo : obj_value K n (v_p (bucket_id c)) = opt K U).
  { rewrite (encode_obj K n P (bucket_id c) M HPc). fold U. rewrite <- (score_on_universe K U c M Wc). exact Oc. }
  split; [apply feasible_Feas; exact Fc|]. split; [exact Eo|].
  intros v' Hf'. apply feasible_Feas in Hf'. destruct (decode_score K n P v' M Hf') as [W' E'].
  rewrite Eo, <- E'. apply opt_lower; assumption.
Qed.

(** * the decoded ranking has no empty bucket *)
Lemma close_buckets_all_nonempty L : forall cur B, B <> [] -> Forall (fun b => b <> []) (close_buckets L cur B).
Proof.
  induction L as [|[e d] L IH]; intros cur B HB; cbn [close_buckets]; [constructor; [exact HB|constructor]|].
  destruct (d =? cur); [apply IH; destruct B; discriminate|]. constructor; [exact HB|apply IH; discriminate].
Qed.

Lemma close_buckets_not_nil L : forall cur B, close_buckets L cur B <> [].
Proof.
  induction L as [|[e d] L IH]; intros cur B; cbn [close_buckets]; [discriminate|]. destruct (d =? cur); [apply IH|discriminate].
Qed.

Lemma close_buckets_tail_nonempty L cur B : Forall (fun b => b <> []) (tl (close_buckets L cur B)).
Proof.
  destruct L as [|[e d] L]; cbn [close_buckets]; [constructor|]. destruct (d =? cur).
  - assert (H : Forall (fun b => b <> []) (close_buckets L cur (B ++ [e]))) by (apply close_buckets_all_nonempty; destruct B; discriminate).
    destruct (close_buckets L cur (B ++ [e])); [constructor|]. inversion H; assumption.
  - cbn [tl]. apply close_buckets_all_nonempty. discriminate.
Qed.

Lemma close_buckets_head_nonempty L cur B : (B <> [] \/ exists e L', L = (e, cur) :: L') -> hd [] (close_buckets L cur B) <> [].
Proof.
  assert (G : forall L cur B, B <> [] -> hd [] (close_buckets L cur B) <> []).
  { intros L0 c0 B0 HB. pose proof (close_buckets_all_nonempty L0 c0 B0 HB) as H.
    pose proof (close_buckets_not_nil L0 c0 B0) as Hn.
    destruct (close_buckets L0 c0 B0); [contradiction|]. inversion H; assumption. }
  intros [HB|(e & L' & ->)]; [apply G; exact HB|]. cbn [close_buckets]. rewrite Z.eqb_refl. apply G. destruct B; discriminate.
Qed.

Lemma argmin {A} (f : A -> Z) (l : list A) : l <> [] -> exists x, In x l /\ forall y, In y l -> f x <= f y.
Proof.
  induction l as [|a l IH]; intros H; [contradiction|]. destruct l as [|b l].
  - exists a. split; [left; reflexivity|]. intros y [<-|[]]. lia.
  - destruct (IH ltac:(discriminate)) as (x & Hx & Hm). destruct (Z.le_gt_cases (f a) (f x)).
    + exists a. split; [left; reflexivity|]. intros y [<-|Hy]; [lia|]. specialize (Hm y Hy). lia.
    + exists x. split; [right; exact Hx|]. intros y [<-|Hy]; [lia|apply Hm; exact Hy].
Qed.

Lemma zsum_pos_ex {A} (f : A -> Z) l : (forall x, In x l -> 0 <= f x) -> 0 < zsum (map f l) -> exists x, In x l /\ 0 < f x.
Proof.
  induction l as [|a l IH]; intros Hn Hp; [cbn in Hp; lia|]. cbn [map] in Hp. rewrite zsum_cons in Hp.
  destruct (Z.lt_ge_cases 0 (f a)) as [L|L]; [exists a; split; [left; reflexivity|exact L]|].
  destruct IH as (x & Hx & Fx); [intros x Hx; apply Hn; right; exact Hx|pose proof (Hn a (or_introl eq_refl)); lia|].
  exists x. split; [right; exact Hx|exact Fx].
Qed.

Theorem decode_nonempty n P v : (0 < n)%nat -> Feas n P v -> Forall (fun b => b <> []) (decode n v).
Proof.
  intros Hn F.
  (* an element without predecessor *)
  destruct (argmin (defeats n v) (seq 0 n)) as (j0 & Hj0 & Hmin); [destruct n; [lia|discriminate]|].
  apply in_seq in Hj0.
  assert (Z0 : defeats n v j0 = 0).
  { pose proof (defeats_nonneg n v j0) as Ge. destruct (Z.eq_dec (defeats n v j0) 0) as [E|E]; [exact E|]. exfalso.
    rewrite (defeats_ind n v) in Ge, E.
    destruct (zsum_pos_ex (fun k => ind v k j0) (seq 0 n)) as (k & Hk & Pk).
    - intros k _. unfold ind. destruct (Nat.eqb k j0); [lia|]. destruct (v (X k j0) =? 1); lia.
    - lia.
    - apply in_seq in Hk. unfold ind in Pk. destruct (Nat.eqb_spec k j0) as [->|Ne]; [lia|].
      destruct (Z.eqb_spec (v (X k j0)) 1) as [E1|E1]; [|lia].
      pose proof (before_lt n P v F k j0 ltac:(lia) ltac:(lia) Ne E1). specialize (Hmin k ltac:(apply in_seq; lia)). lia. }
  unfold decode. set (items := map (fun j => (j, defeats n v j)) (seq 0 n)).
  set (L := sort_items items).
  assert (HL : exists e L', L = (e, 0) :: L').
  { pose proof (sort_items_sorted items) as S. fold L in S.
    assert (Hin : In (j0, 0) L).
    { apply (Permutation_in _ (Permutation_sym (sort_items_perm items))). unfold items. apply in_map_iff. exists j0. split; [rewrite Z0; reflexivity|apply in_seq; lia]. }
    assert (Hpos : forall it, In it L -> 0 <= snd it).
    { intros it Hit. apply (Permutation_in _ (sort_items_perm items)) in Hit. unfold items in Hit.
      apply in_map_iff in Hit as (k & <- & _). apply defeats_nonneg. }
    clearbody L. destruct L as [|[e d] L']; [destruct Hin|]. apply StronglySorted_inv in S as [_ Hd].
    pose proof (Hpos (e, d) (or_introl eq_refl)) as Hd0. cbn [snd] in Hd0.
    destruct Hin as [E|Hin]; [inversion E; subst; eauto|]. rewrite Forall_forall in Hd. specialize (Hd _ Hin). unfold le_snd in Hd. cbn [snd] in Hd.
    assert (d = 0) by lia. subst d. eauto. }
  pose proof (close_buckets_head_nonempty L 0 [] (or_intror HL)) as Hh.
  pose proof (close_buckets_tail_nonempty L 0 []) as Ht.
  destruct (close_buckets L 0 []) as [|b r]; [constructor|]. constructor; [exact Hh|exact Ht].
Qed.

(** * the "no tie" rows of the CPLEX model lose no optimum when tying is never cheaper than the average of the
    two strict orders *)
Section NoTie.
  Variables (K : table) (n : nat).
  Hypothesis M : mirror K.
  Hypothesis HT : forall i j, (i < j < n)%nat -> let '(b, a, t) := K i j in b + a <= 2 * t.

  (** two tie-free refinements of a position function: ties broken by increasing / decreasing element id *)
  Definition up (p : posf) : posf := fun x => p x * (Z.of_nat n) + Z.of_nat x.
  Definition down (p : posf) : posf := fun x => p x * (Z.of_nat n) + (Z.of_nat n - 1 - Z.of_nat x).

  Lemma refine_sum p : scoref K (seq 0 n) (up p) + scoref K (seq 0 n) (down p) <= 2 * scoref K (seq 0 n) p.
  Proof.
    unfold scoref. rewrite <- zsum_map_add'.
    assert (E : 2 * zsum (map (fun xy => pickf K p (fst xy) (snd xy)) (ordpairs (seq 0 n)))
                = zsum (map (fun xy => 2 * pickf K p (fst xy) (snd xy)) (ordpairs (seq 0 n)))).
    { generalize (ordpairs (seq 0 n)). induction l as [|a l IH]; [reflexivity|]. cbn [map]. rewrite !zsum_cons, <- IH. lia. }
    rewrite E. apply zsum_le. intros [i j] Hij. cbn [fst snd]. apply ordpairs_seq_lt in Hij.
    assert (L : (i < j < n)%nat) by lia. specialize (HT i j L). unfold pickf, up, down. destruct (K i j) as [[b a] t].
    destruct (Z.compare_spec (p i) (p j)) as [E1|L1|G1].
    - rewrite E1.
      assert (C1 : (p j * Z.of_nat n + Z.of_nat i ?= p j * Z.of_nat n + Z.of_nat j) = Lt) by (apply Z.compare_lt_iff; lia).
      assert (C2 : (p j * Z.of_nat n + (Z.of_nat n - 1 - Z.of_nat i) ?= p j * Z.of_nat n + (Z.of_nat n - 1 - Z.of_nat j)) = Gt) by (apply Z.compare_gt_iff; lia).
      rewrite C1, C2. lia.
    - assert (C1 : (p i * Z.of_nat n + Z.of_nat i ?= p j * Z.of_nat n + Z.of_nat j) = Lt) by (apply Z.compare_lt_iff; nia).
      assert (C2 : (p i * Z.of_nat n + (Z.of_nat n - 1 - Z.of_nat i) ?= p j * Z.of_nat n + (Z.of_nat n - 1 - Z.of_nat j)) = Lt) by (apply Z.compare_lt_iff; nia).
      rewrite C1, C2. lia.
    - assert (C1 : (p i * Z.of_nat n + Z.of_nat i ?= p j * Z.of_nat n + Z.of_nat j) = Gt) by (apply Z.compare_gt_iff; nia).
      assert (C2 : (p i * Z.of_nat n + (Z.of_nat n - 1 - Z.of_nat i) ?= p j * Z.of_nat n + (Z.of_nat n - 1 - Z.of_nat j)) = Gt) by (apply Z.compare_gt_iff; nia).
      rewrite C1, C2. lia.
  Qed.

  Lemma up_inj p i j : (i < n)%nat -> (j < n)%nat -> i <> j -> up p i <> up p j.
  Proof. intros Hi Hj Hn. unfold up. destruct (Z.lt_trichotomy (p i) (p j)) as [L|[E|G]]; [nia|rewrite E; lia|nia]. Qed.
  Lemma down_inj p i j : (i < n)%nat -> (j < n)%nat -> i <> j -> down p i <> down p j.
  Proof. intros Hi Hj Hn. unfold down. destruct (Z.lt_trichotomy (p i) (p j)) as [L|[E|G]]; [nia|rewrite E; lia|nia]. Qed.

  (** a tie-free position function at least as good as [p] *)
  Lemma tie_free_better p : exists q, (forall i j, (i < n)%nat -> (j < n)%nat -> i <> j -> q i <> q j) /\
                                      scoref K (seq 0 n) q <= scoref K (seq 0 n) p.
  Proof.
    pose proof (refine_sum p) as S. destruct (Z_le_gt_dec (scoref K (seq 0 n) (up p)) (scoref K (seq 0 n) p)) as [L|G].
    - exists (up p). split; [apply up_inj|exact L].
    - exists (down p). split; [apply down_inj|lia].
  Qed.

  Lemma sat_notie q : (forall i j, (i < n)%nat -> (j < n)%nat -> i <> j -> q i <> q j) ->
    forallb (sat (v_p q)) (notie_rows n) = true.
  Proof.
    intros Hq. apply forallb_forall. intros r Hr. unfold notie_rows in Hr. apply in_map_iff in Hr as ([i j] & <- & Hij).
    apply ordpairs_seq_lt in Hij. cbn [fst snd]. unfold sat. cbn [r_eq r_rhs]. rewrite lhs_eval. cbn [map zsum fold_right fst snd v_p].
    destruct (Z.eqb_spec (q i) (q j)) as [E|_]; [exfalso; apply (Hq i j); lia|]. reflexivity.
  Qed.

  (** main statement for the CPLEX model: decoding any optimal feasible point of the program WITH the no-tie rows
      gives a global optimum *)
  Theorem ilp_notie_optimal v :
    feasible n [] v = true -> forallb (sat v) (notie_rows n) = true ->
    (forall v', feasible n [] v' = true -> forallb (sat v') (notie_rows n) = true -> obj_value K n v <= obj_value K n v') ->
    wfU (seq 0 n) (decode n v) /\ score K (decode n v) = opt K (seq 0 n) /\ obj_value K n v = opt K (seq 0 n).
  Proof.
    intros Hf Hnt Hmin. set (U := seq 0 n). assert (Nd : NoDup U) by apply seq_NoDup.
    apply feasible_Feas in Hf as F. destruct (decode_score K n [] v M F) as [W E].
    destruct (opt_attained K U M Nd) as (c & Wc & _ & Ec).
    destruct (tie_free_better (bucket_id c)) as (q & Hq & Le).
    assert (HP : forall i j, earlier [] i j -> q i < q j) by (intros i j (P1 & G & P2 & EP & _); destruct P1; discriminate).
    pose proof (encode_Feas n [] q HP) as Fq. apply feasible_Feas in Fq.
    pose proof (Hmin _ Fq (sat_notie q Hq)) as Lm. rewrite (encode_obj K n [] q M HP) in Lm. fold U in Lm, Le.
    rewrite <- (score_on_universe K U c M Wc), Ec in Le.
    pose proof (opt_lower K U (decode n v) M Nd W) as Ge.
    split; [exact W|]. split; lia.
  Qed.
End NoTie.
