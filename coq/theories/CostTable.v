(** Model of [_pairwise_cost_matrix_only] / [PairwiseBasedAlgorithm.pairwise_cost_matrix]
    (unit weights) and of [Dataset.get_positions] / [get_bucket_ids]. *)
From Corankco Require Import Prelude Scheme Rank KemenySpec.
Local Open Scope Z_scope.

(** the six-case if/elif chain, for one ranking *)
Definition step6 (s : scheme) (acc : Z * Z * Z) (p1 p2 : Z) : Z * Z * Z :=
  let '(a, b, c) := acc in
  if negb (p1 =? -1) && negb (p2 =? -1) then
    if p1 <? p2 then (a + b0 s, b + b1 s, c + t0 s)
    else if p2 <? p1 then (a + b1 s, b + b0 s, c + t1 s)
    else (a + b2 s, b + b2 s, c + t2 s)
  else if negb (p1 =? -1) then (a + b3 s, b + b4 s, c + t3 s)
  else if negb (p2 =? -1) then (a + b4 s, b + b3 s, c + t4 s)
  else (a + b5 s, b + b5 s, c + t5 s).

Fixpoint acc_pair (s : scheme) (l1 l2 : list Z) (acc : Z * Z * Z) : Z * Z * Z :=
  match l1, l2 with
  | p1 :: l1', p2 :: l2' => acc_pair s l1' l2' (step6 s acc p1 p2)
  | _, _ => acc
  end.

(** upper triangle accumulated, lower triangle mirrored, zero diagonal *)
Definition entry (s : scheme) (P : list (list Z)) (i j : nat) : Z * Z * Z :=
  if Nat.ltb i j then acc_pair s (nth i P []) (nth j P []) (0, 0, 0)
  else if Nat.ltb j i then
    let '(a, b, c) := acc_pair s (nth j P []) (nth i P []) (0, 0, 0) in (b, a, c)
  else (0, 0, 0).

Definition cost_matrix (s : scheme) (P : list (list Z)) : list (list (Z * Z * Z)) :=
  let n := length P in
  map (fun i => map (fun j => entry s P i j) (seq 0 n)) (seq 0 n).

(** the table over element ids that the pairwise-based algorithms use *)
Definition table_of (M : list (list (Z * Z * Z))) : table :=
  fun i j => nth j (nth i M []) (0, 0, 0).

Definition cost_table (s : scheme) (D : dataset) : table :=
  table_of (cost_matrix s (positions (universe D) D)).
