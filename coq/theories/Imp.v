(** Support for the kernels that tools/py2coq.py translates statement by statement (imperative subset of Python:
    scalars, one-dimensional arrays, if / while / for-range): loops with fuel, ranges, array cells. *)
From Corankco Require Import Prelude Rank Markov.
Local Open Scope Z_scope.

(** [while c: body] - [None] when the fuel runs out (excluded by the theorems' statements) *)
Fixpoint while_fuel {S : Type} (fuel : nat) (c : S -> bool) (b : S -> option S) (s : S) : option S :=
  match fuel with
  | O => None
  | Datatypes.S f => if c s then match b s with Some s' => while_fuel f c b s' | None => None end else Some s
  end.

(** [for i in range(lo, hi)] *)
Definition zrange (lo hi : Z) : list Z := map (fun k => lo + Z.of_nat k) (seq 0 (Z.to_nat (hi - lo))).
Fixpoint fold_opt {S A : Type} (f : S -> A -> option S) (l : list A) (s : S) : option S :=
  match l with
  | [] => Some s
  | a :: l' => match f s a with Some s' => fold_opt f l' s' | None => None end
  end.

Definition zlen (a : list Z) : Z := Z.of_nat (length a).
Definition aset (a : list Z) (i : Z) (v : Z) : list Z := upd a (Z.to_nat i) v.
Definition zeros (n : Z) : list Z := repeat 0 (Z.to_nat n).

Lemma zrange_nat n : zrange 0 (Z.of_nat n) = map Z.of_nat (seq 0 n).
Proof. unfold zrange. rewrite Z.sub_0_r, Nat2Z.id. apply map_ext. intros; lia. Qed.

Lemma zrange_empty lo hi : hi <= lo -> zrange lo hi = [].
Proof. intros H. unfold zrange. replace (Z.to_nat (hi - lo)) with O by lia. reflexivity. Qed.

Lemma zrange_cons lo hi : lo < hi -> zrange lo hi = lo :: zrange (lo + 1) hi.
Proof.
  intros H. unfold zrange. replace (Z.to_nat (hi - lo)) with (S (Z.to_nat (hi - (lo + 1)))) by lia.
  cbn [seq map]. f_equal; [lia|]. rewrite <- seq_shift, map_map. apply map_ext. intros; lia.
Qed.

Lemma fold_opt_some {S A} (f : S -> A -> S) l (s : S) :
  fold_opt (fun s a => Some (f s a)) l s = Some (fold_left f l s).
Proof. revert s; induction l as [|a l IH]; intros s; [reflexivity|]. cbn. apply IH. Qed.

Lemma while_fuel_false {S} f (c : S -> bool) b s : c s = false -> while_fuel (Datatypes.S f) c b s = Some s.
Proof. intros H. cbn. rewrite H. reflexivity. Qed.

Lemma while_fuel_step {S} f (c : S -> bool) b s s' :
  c s = true -> b s = Some s' -> while_fuel (Datatypes.S f) c b s = while_fuel f c b s'.
Proof. intros H1 H2. cbn. rewrite H1, H2. reflexivity. Qed.

(** more fuel never changes an answer *)
Lemma while_fuel_mono {S} f1 f2 (c : S -> bool) b s r :
  (f1 <= f2)%nat -> while_fuel f1 c b s = Some r -> while_fuel f2 c b s = Some r.
Proof.
  revert f2 s; induction f1 as [|f1 IH]; intros f2 s Hle H; [discriminate|].
  destruct f2 as [|f2]; [lia|]. cbn in *. destruct (c s); [|exact H].
  destruct (b s) as [s'|]; [|discriminate]. apply IH; [lia|exact H].
Qed.
