(** Property C01 (part): refusal of incomplete candidates; the merge lemma is in KemenyMerge. *)
From Corankco Require Import Prelude Scheme Rank KemenySpec KemenyMerge KemenyImpl.
Local Open Scope Z_scope.

Lemma complete_towards_spec c D :
  complete_towards c D = true <-> forall r x, In r D -> ranked r x -> ranked c x.
Proof.
  unfold complete_towards, ranked. rewrite forallb_forall. split.
  - intros H r x Hr Hx. specialize (H r Hr). rewrite forallb_forall in H. apply mem_In, H, Hx.
  - intros H r Hr. rewrite forallb_forall. intros x Hx. apply mem_In. eauto.
Qed.

(** a candidate that lacks a dataset element is refused with the dedicated exception, never scored *)
Theorem kemeny_refuses s D c :
  (exists r x, In r D /\ ranked r x /\ ~ ranked c x) -> get_kemeny_score s D c = Err InvalidRankings.
Proof.
  intros (r & x & Hr & Hx & Hn). unfold get_kemeny_score.
  destruct (complete_towards c D) eqn:E; [|reflexivity].
  exfalso. apply Hn. eapply complete_towards_spec; eauto.
Qed.

Theorem kemeny_refuses_only_then s D c :
  get_kemeny_score s D c = Err InvalidRankings -> exists r x, In r D /\ ranked r x /\ ~ ranked c x.
Proof.
  unfold get_kemeny_score. destruct (complete_towards c D) eqn:E.
  - destruct (sum_costs s c D); discriminate.
  - intros _. unfold complete_towards in E.
    assert (X : exists r, In r D /\ forallb (fun x => mem x (elems c)) (elems r) = false).
    { clear -E. induction D as [|r D IH]; simpl in E; [discriminate|].
      apply andb_false_iff in E as [E|E]; [exists r; simpl; auto|].
      destruct (IH E) as (r' & H1 & H2). exists r'; simpl; auto. }
    destruct X as (r & Hr & Hf). exists r.
    assert (Y : exists x, In x (elems r) /\ mem x (elems c) = false).
    { clear -Hf. induction (elems r) as [|x l IH]; simpl in Hf; [discriminate|].
      apply andb_false_iff in Hf as [E|E]; [exists x; simpl; auto|].
      destruct (IH E) as (x' & H1 & H2). exists x'; simpl; auto. }
    destruct Y as (x & Hx & Hm). exists x. repeat split; try assumption. apply mem_false. assumption.
Qed.
