(** BioConsert, the local search as a whole: every accepted move lowers the score of the ranking denoted by the
    vector by more than the threshold and by exactly the amount added to the running delta; the numbering stays
    dense; when a sweep changes nothing no single-element move improves the score by more than the threshold;
    the loop terminates. *)
From Corankco Require Import Prelude Scheme Rank KemenySpec CostTable OptTheory Markov MarkovProof Borda BioConsert BioDelta
     Judge.JBio BioMoves BioArrays.
Local Open Scope Z_scope.

(** * the variation of the score for a single-element move *)
Lemma others_perm t n : (t < n)%nat -> Permutation (seq 0 n) (t :: others t n).
Proof.
  intros Ht. apply NoDup_Permutation.
  - apply seq_NoDup.
  - constructor; [|apply NoDup_filter, seq_NoDup]. unfold others. rewrite filter_In. intros [_ H]. rewrite Nat.eqb_refl in H. discriminate.
  - intros x. unfold others. cbn [In]. rewrite filter_In, in_seq. destruct (Nat.eqb_spec x t) as [->|Ne]; cbn [negb]; split.
    + intros _. left; reflexivity.
    + intros _. lia.
    + intros H. right. split; [lia|reflexivity].
    + intros [H|[H _]]; [congruence|lia].
Qed.

Lemma scoref_single K n t p q :
  mirror K -> (t < n)%nat ->
  (forall x y, In x (others t n) -> In y (others t n) -> Z.compare (p x) (p y) = Z.compare (q x) (q y)) ->
  scoref K (seq 0 n) q - scoref K (seq 0 n) p = zsum (map (fun e => pickf K q t e - pickf K p t e) (others t n)).
Proof.
  intros M Ht H. rewrite !(scoref_perm K (seq 0 n) (t :: others t n) _ M (others_perm t n Ht)).
  unfold scoref. cbn [ordpairs]. rewrite !map_app, !zsum_app, !map_map. cbn [fst snd].
  fold (scoref K (others t n) p). fold (scoref K (others t n) q). rewrite (scoref_ext K (others t n) p q H).
  pose proof (zsum_map_sub (fun x => pickf K q t x) (fun x => pickf K p t x) (others t n)) as E. cbv beta in E. lia.
Qed.

Section Delta.
  Variables (K : table) (r : vec) (t n : nat) (m : Z).
  Hypothesis M : mirror K.
  Hypothesis HD : DenseTo n r m.
  Hypothesis Ht : (t < n)%nat.

  Lemma moved_others_cmp np x y : In x (others t n) -> In y (others t n) ->
    Z.compare (base r x) (base r y) = Z.compare (moved r t np x) (moved r t np y).
  Proof.
    unfold others. rewrite !filter_In. intros [_ Hx] [_ Hy]. unfold base, moved.
    destruct (Nat.eqb x t); [discriminate|]. destruct (Nat.eqb y t); [discriminate|]. reflexivity.
  Qed.

  Lemma pickf_base e : In e (others t n) -> pickf K (base r) t e = pick (bef K t) (aft K t) (tie K t) (get r) (b0 r t) e.
  Proof.
    intros _. unfold pickf, pick, base, bef, aft, tie, b0. destruct (K t e) as [[b a] ti]. cbn [fst snd].
    destruct (Z.compare_spec (2 * get r t) (2 * get r e)); destruct (Z.ltb_spec (get r t) (get r e)); destruct (Z.ltb_spec (get r e) (get r t)); try lia; reflexivity.
  Qed.

  Lemma pickf_join k e : In e (others t n) -> pickf K (moved r t (2 * k)) t e = pick (bef K t) (aft K t) (tie K t) (get r) k e.
  Proof.
    unfold others. rewrite filter_In. intros [_ He]. unfold pickf, pick, moved, bef, aft, tie. rewrite Nat.eqb_refl.
    destruct (Nat.eqb e t); [discriminate|]. destruct (K t e) as [[b a] ti]. cbn [fst snd].
    destruct (Z.compare_spec (2 * k) (2 * get r e)); destruct (Z.ltb_spec k (get r e)); destruct (Z.ltb_spec (get r e) k); try lia; reflexivity.
  Qed.

  Lemma pickf_new k e : In e (others t n) -> pickf K (moved r t (2 * k - 1)) t e = pick_new (bef K t) (aft K t) (get r) k e.
  Proof.
    unfold others. rewrite filter_In. intros [_ He]. unfold pickf, pick_new, moved, bef, aft. rewrite Nat.eqb_refl.
    destruct (Nat.eqb e t); [discriminate|]. destruct (K t e) as [[b a] ti]. cbn [fst snd].
    destruct (Z.compare_spec (2 * k - 1) (2 * get r e)); destruct (Z.leb_spec k (get r e)); try lia; reflexivity.
  Qed.

  Theorem DJ_score k : DJ K r t n k = scoref K (seq 0 n) (moved r t (2 * k)) - scoref K (seq 0 n) (base r).
  Proof.
    rewrite (scoref_single K n t (base r) (moved r t (2 * k)) M Ht (moved_others_cmp (2 * k))).
    unfold DJ, delta_join. apply zsum_map_ext. intros e He. rewrite (pickf_join k e He), (pickf_base e He). reflexivity.
  Qed.

  Theorem DN_score k : DN K r t n k = scoref K (seq 0 n) (moved r t (2 * k - 1)) - scoref K (seq 0 n) (base r).
  Proof.
    rewrite (scoref_single K n t (base r) (moved r t (2 * k - 1)) M Ht (moved_others_cmp (2 * k - 1))).
    unfold DN, delta_new. apply zsum_map_ext. intros e He. rewrite (pickf_new k e He), (pickf_base e He). reflexivity.
  Qed.
End Delta.

(** * density bounds the largest id *)
Lemma dense_bound n r m : DenseTo n r m -> m < Z.of_nat n.
Proof.
  intros (L & Rg & Sj).
  assert (G : forall j : nat, Z.of_nat j <= m + 1 ->
            exists l, NoDup l /\ length l = j /\ forall e, In e l -> (e < n)%nat /\ get r e < Z.of_nat j).
  { induction j as [|j IH]; intros Hj; [exists []; split; [apply NoDup_nil|split; [reflexivity|intros e []]]|].
    destruct (IH ltac:(lia)) as (l & Nd & Ll & Hl). destruct (Sj (Z.of_nat j) ltac:(lia)) as (e & He & Ee).
    exists (e :: l). split; [constructor; [intros Hin; destruct (Hl e Hin); lia|exact Nd]|]. split; [cbn [length]; lia|].
    intros e' [<-|Hin]; [split; [exact He|lia]|]. destruct (Hl e' Hin). split; [assumption|lia]. }
  destruct (Z_lt_le_dec m 0) as [Neg|Pos]; [lia|].
  destruct (G (Z.to_nat (m + 1)) ltac:(lia)) as (l & Nd & Ll & Hl).
  assert (I : incl l (seq 0 n)) by (intros e He; apply in_seq; destruct (Hl e He); lia).
  pose proof (NoDup_incl_length Nd I) as Le. rewrite seq_length in Le. lia.
Qed.

(** * one element of a sweep *)
Definition NoMove (K : table) (n : nat) (r : vec) (m : Z) (e : nat) : Prop :=
  (forall k, 0 <= k <= m -> k <> get r e -> - THR <= DJ K r e n k) /\
  (forall k, 0 <= k <= m + 1 -> - THR <= DN K r e n k).

Definition SInv (K : table) (n : nat) (S0 : Z) (r : vec) (m d : Z) : Prop :=
  DenseTo n r m /\ scoref K (seq 0 n) (base r) = S0 + d.

Lemma compare_double a b : Z.compare (2 * a) (2 * b) = Z.compare a b.
Proof.
  destruct (Z.compare_spec a b) as [E|E|E]; [apply Z.compare_eq_iff|apply Z.compare_lt_iff|apply Z.compare_gt_iff]; lia.
Qed.

Theorem improve_elem_spec K n S0 r m d ch e :
  mirror K -> SInv K n S0 r m d -> (e < n)%nat ->
  let '(r', m', d', ch') := improve_elem K n (r, m, d, ch) e in
  SInv K n S0 r' m' d' /\
  ((r' = r /\ m' = m /\ d' = d /\ ch' = ch /\ NoMove K n r m e) \/ (ch' = true /\ d' < d - THR)).
Proof.
  intros M [HD HS] He. pose proof (dense_bound n r m HD) as Hm. unfold improve_elem.
  pose proof (compute_delta_costs_spec K r e n m HD He Hm) as CS. unfold b0 in CS.
  destruct (compute_delta_costs K r e (get r e) n) as [[alone C] A]. destruct CS as (Hal & LC & LA & HC & HA).
  pose proof (search_to_change_spec K r e n m HD He Hm C LC HC) as SC. unfold b0 in SC.
  destruct (search_to_change_bucket (get r e) C m) as [to C'].
  destruct SC as [[-> NoJ]|(Rto & Nto & Ev & Lt)].
  - (* no existing bucket improves: try a new bucket *)
    cbn [Z.leb]. change (0 <=? -1) with false. cbv iota.
    pose proof (search_to_add_spec K r e n m HD He Hm A LA HA) as SA. unfold b0 in SA.
    destruct (search_to_add_bucket (get r e) A m) as [to A'].
    destruct SA as [[-> NoN]|(Rto & Ev & Lt)].
    + change (0 <=? -1) with false. cbv iota. split; [split; assumption|]. left. split; [reflexivity|]. split; [reflexivity|]. split; [reflexivity|]. split; [reflexivity|]. split; assumption.
    + destruct (Z.leb_spec 0 to) as [_|Bad]; [|lia].
      assert (HD' : DenseTo n (add_bucket r e (get r e) to alone) (if alone then m else m + 1)) by (apply add_bucket_dense; assumption).
      split; [split; [exact HD'|]|right; split; [reflexivity|lia]].
      rewrite (scoref_ext K (seq 0 n) _ (moved r e (2 * to - 1))).
      * rewrite Ev, (DN_score K r e n M He to). lia.
      * intros x y Hx Hy. apply in_seq in Hx, Hy. unfold base. rewrite compare_double.
        apply (add_bucket_cmp n r m e to alone HD He (proj1 Hal)); lia.
  - destruct (Z.leb_spec 0 to) as [_|Bad]; [|lia].
    assert (HD' : DenseTo n (change_bucket r e (get r e) to alone) (if alone then m - 1 else m)) by (apply change_bucket_dense; assumption).
    split; [split; [exact HD'|]|right; split; [reflexivity|lia]].
    rewrite (scoref_ext K (seq 0 n) _ (moved r e (2 * to))).
    + rewrite Ev, (DJ_score K r e n M He to). lia.
    + intros x y Hx Hy. apply in_seq in Hx, Hy. unfold base. rewrite compare_double.
      apply (change_bucket_cmp n r m e to alone HD He Nto (proj1 Hal)); lia.
Qed.

(** * a sweep over the elements *)
Lemma sweep_spec K n S0 : mirror K -> forall l r m d ch,
  SInv K n S0 r m d -> (forall e, In e l -> (e < n)%nat) ->
  let '(r', m', d', ch') := fold_left (improve_elem K n) l (r, m, d, ch) in
  SInv K n S0 r' m' d' /\ d' <= d /\ (ch = true -> ch' = true) /\
  ((r' = r /\ m' = m /\ d' = d /\ ch' = ch /\ forall e, In e l -> NoMove K n r m e) \/ (ch' = true /\ d' < d - THR)).
Proof.
  intros M. induction l as [|e l IH]; intros r m d ch HI Hl.
  - cbn [fold_left]. split; [exact HI|]. split; [lia|]. split; [auto|]. left. split; [reflexivity|]. split; [reflexivity|]. split; [reflexivity|]. split; [reflexivity|]. intros e0 [].
  - cbn [fold_left]. pose proof (improve_elem_spec K n S0 r m d ch e M HI (Hl e (or_introl eq_refl))) as ES.
    destruct (improve_elem K n (r, m, d, ch) e) as [[[r1 m1] d1] ch1]. destruct ES as (HI1 & Case).
    specialize (IH r1 m1 d1 ch1 HI1 (fun e' He' => Hl e' (or_intror He'))).
    destruct (fold_left (improve_elem K n) l (r1, m1, d1, ch1)) as [[[r' m'] d'] ch']. destruct IH as (HI' & Le & Mono & Case').
    split; [exact HI'|]. pose proof THR_pos as Tp.
    destruct Case as [(-> & -> & -> & -> & NM)|(-> & Lt)].
    + split; [exact Le|]. split; [exact Mono|].
      destruct Case' as [(-> & -> & -> & -> & NMs)|(Et & Lt')]; [left|right; split; assumption].
      split; [reflexivity|]. split; [reflexivity|]. split; [reflexivity|]. split; [reflexivity|]. intros e' [<-|He']; [exact NM|apply NMs; exact He'].
    + split; [lia|]. split; [intros _; apply Mono; reflexivity|]. right. split; [apply Mono; reflexivity|lia].
Qed.

(** * the loop *)
Theorem improve_loop_spec K n S0 : mirror K -> forall fuel r m d r' d',
  SInv K n S0 r m d -> improve_loop fuel K n r m d = Some (r', d') ->
  exists m', SInv K n S0 r' m' d' /\ d' <= d /\ forall e, (e < n)%nat -> NoMove K n r' m' e.
Proof.
  intros M. induction fuel as [|f IH]; intros r m d r' d' HI E; [discriminate|]. cbn [improve_loop] in E.
  pose proof (sweep_spec K n S0 M (seq 0 n) r m d false HI ltac:(intros e He; apply in_seq in He; lia)) as SS.
  destruct (fold_left (improve_elem K n) (seq 0 n) (r, m, d, false)) as [[[r1 m1] d1] ch1].
  destruct SS as (HI1 & Le & _ & Case). destruct ch1.
  - destruct (IH r1 m1 d1 r' d' HI1 E) as (m' & HI' & Le' & NM). exists m'. split; [exact HI'|]. split; [lia|exact NM].
  - inversion E; subst. destruct Case as [(-> & -> & -> & _ & NM)|(Bad & _)]; [|discriminate].
    exists m. split; [exact HI1|]. split; [lia|]. intros e He. apply NM. apply in_seq. lia.
Qed.

Definition nonnegK (K : table) : Prop := forall i j, let '(b, a, t) := K i j in 0 <= b /\ 0 <= a /\ 0 <= t.

Lemma scoref_nonneg K U p : nonnegK K -> 0 <= scoref K U p.
Proof.
  intros H. unfold scoref. apply zsum_nonneg. intros z Hz. apply in_map_iff in Hz as ([x y] & <- & _). cbn [fst snd].
  unfold pickf. specialize (H x y). destruct (K x y) as [[b a] t]. destruct (p x ?= p y); lia.
Qed.

(** every sweep that changes something lowers the score by more than the threshold: the loop stops *)
Theorem improve_loop_terminates K n S0 : mirror K -> nonnegK K -> forall fuel r m d,
  SInv K n S0 r m d -> S0 + d < Z.of_nat fuel * THR -> exists res, improve_loop fuel K n r m d = Some res.
Proof.
  intros M NN. induction fuel as [|f IH]; intros r m d HI Hf.
  - destruct HI as [_ HS]. pose proof (scoref_nonneg K (seq 0 n) (base r) NN). lia.
  - cbn [improve_loop].
    pose proof (sweep_spec K n S0 M (seq 0 n) r m d false HI ltac:(intros e He; apply in_seq in He; lia)) as SS.
    destruct (fold_left (improve_elem K n) (seq 0 n) (r, m, d, false)) as [[[r1 m1] d1] ch1].
    destruct SS as (HI1 & Le & _ & Case). destruct ch1; [|eexists; reflexivity].
    destruct Case as [(_ & _ & _ & Bad & _)|(_ & Lt)]; [discriminate|]. apply (IH r1 m1 d1 HI1). lia.
Qed.

(** * [_improve_one_ranking] and [_bio_consert] on one departure *)
Lemma dense_vmax n r m : (0 < n)%nat -> DenseTo n r m -> vmax r = m.
Proof.
  intros Hn (L & Rg & Sj). destruct (vmax_spec r) as (Up & _ & Top).
  assert (0 <= m) by (specialize (Rg 0%nat Hn); lia).
  destruct (Sj m ltac:(lia)) as (e & He & Ee).
  assert (In m r) by (apply In_get; exists e; split; [lia|exact Ee]).
  pose proof (Up m H0). destruct Top as [E|Hin]; [lia|]. apply In_get in Hin as (e' & He' & Ee'). specialize (Rg e' ltac:(lia)). lia.
Qed.

Lemma score_vec_scoref K n r : score_vec K n r = scoref K (seq 0 n) (base r).
Proof.
  unfold score_vec, scoref. apply zsum_map_ext. intros [x y] _. cbn [fst snd]. unfold pickf, base.
  destruct (K x y) as [[b a] t]. rewrite compare_double.
  destruct (Z.compare_spec (get r x) (get r y)); destruct (Z.ltb_spec (get r x) (get r y)); destruct (Z.ltb_spec (get r y) (get r x)); try lia; reflexivity.
Qed.

Lemma moved_own K n r e : (e < n)%nat -> scoref K (seq 0 n) (moved r e (2 * get r e)) = scoref K (seq 0 n) (base r).
Proof.
  intros He. apply scoref_ext. intros x y _ _. unfold moved, base.
  destruct (Nat.eqb_spec x e) as [->|_]; destruct (Nat.eqb_spec y e) as [->|_]; reflexivity.
Qed.

Theorem nomove_local_opt K n r m : mirror K -> (0 < n)%nat -> DenseTo n r m ->
  (forall e, (e < n)%nat -> NoMove K n r m e) -> local_opt K n r THR = true.
Proof.
  intros M Hn HD NM. unfold local_opt. rewrite (dense_vmax n r m Hn HD). apply forallb_forall. intros e He. apply in_seq in He.
  destruct (NM e ltac:(lia)) as [NJ NN]. pose proof THR_pos as Tp. apply andb_true_iff. split; apply forallb_forall.
  - intros b Hb. apply in_seq in Hb. apply Z.leb_le. destruct (Z.eq_dec (Z.of_nat b) (get r e)) as [E|E].
    + rewrite E, moved_own by lia. lia.
    + specialize (NJ (Z.of_nat b) ltac:(lia) E). rewrite (DJ_score K r e n M ltac:(lia)) in NJ. lia.
  - intros p Hp. apply in_seq in Hp. apply Z.leb_le.
    specialize (NN (Z.of_nat p) ltac:(lia)). rewrite (DN_score K r e n M ltac:(lia)) in NN. lia.
Qed.

(** the local search from one departure vector: the reported score is the score of the returned vector, it is
    at most the score of the departure, the returned vector is dense and is a local optimum *)
Theorem bio_one_spec K n fuel r m r' s : mirror K -> (0 < n)%nat -> DenseTo n r m ->
  bio_one fuel K n r = Some (r', s) ->
  s = score_vec K n r' /\ s <= score_vec K n r /\ (exists m', DenseTo n r' m') /\ local_opt K n r' THR = true.
Proof.
  intros M Hn HD E. unfold bio_one, improve_one_ranking in E. rewrite (dense_vmax n r m Hn HD) in E.
  destruct (improve_loop fuel K n r m 0) as [[r1 d1]|] eqn:EL; [|discriminate]. inversion E; subst.
  assert (HI : SInv K n (score_vec K n r) r m 0) by (split; [exact HD|rewrite score_vec_scoref; lia]).
  destruct (improve_loop_spec K n _ M fuel r m 0 r' d1 HI EL) as (m' & [HD' HS'] & Le & NM).
  split; [rewrite (score_vec_scoref K n r'); lia|]. split; [lia|]. split; [exists m'; exact HD'|].
  apply (nomove_local_opt K n r' m' M Hn HD' NM).
Qed.

Theorem bio_one_terminates K n fuel r m : mirror K -> nonnegK K -> (0 < n)%nat -> DenseTo n r m ->
  score_vec K n r < Z.of_nat fuel * THR -> exists res, bio_one fuel K n r = Some res.
Proof.
  intros M NN Hn HD Hf. unfold bio_one, improve_one_ranking. rewrite (dense_vmax n r m Hn HD).
  assert (HI : SInv K n (score_vec K n r) r m 0) by (split; [exact HD|rewrite score_vec_scoref; lia]).
  destruct (improve_loop_terminates K n _ M NN fuel r m 0 HI ltac:(lia)) as ([r1 d1] & E). rewrite E. eexists; reflexivity.
Qed.
