(** A closed form of the generalized Kemeny score for one shape of input on which the library can be run at sizes that no evaluation of
    the model inside Coq can follow (tens of thousands of elements): ONE strict input ranking over the elements of [l], and the
    candidate that ties them all.  Every pair is then "tied in the candidate, ordered in the input": the score is T[0] per pair. *)
From Corankco Require Import Prelude Scheme Rank KemenySpec CopelandProof CostTableProof.
Local Open Scope Z_scope.

Definition strict_of (l : list nat) : ranking := map (fun x => [x]) l.

Lemma mem_single x a : mem x [a] = Nat.eqb x a.
Proof. unfold mem. cbn. rewrite orb_false_r. reflexivity. Qed.

Lemma bid_strict_range l : forall k x, In x l -> k <= bid_from k (strict_of l) x < k + Z.of_nat (length l).
Proof.
  induction l as [|a l IH]; intros k x Hx; [destruct Hx|].
  cbn [strict_of map bid_from length]. rewrite mem_single.
  destruct (Nat.eqb_spec x a) as [->|Ne]; [lia|].
  destruct Hx as [E|Hx]; [congruence|]. specialize (IH (k + 1) x Hx). fold (strict_of l). lia.
Qed.

Lemma bid_strict_inj l : NoDup l -> forall k x y, In x l -> In y l -> x <> y ->
  bid_from k (strict_of l) x <> bid_from k (strict_of l) y.
Proof.
  induction l as [|a l IH]; intros Nd k x y Hx Hy Ne; [destruct Hx|].
  inversion Nd as [|? ? Ha Nl]; subst.
  cbn [strict_of map bid_from]. rewrite !mem_single. fold (strict_of l).
  destruct (Nat.eqb_spec x a) as [->|Nx], (Nat.eqb_spec y a) as [->|Ny].
  - congruence.
  - destruct Hy as [E|Hy]; [congruence|]. pose proof (bid_strict_range l (k + 1) y Hy). lia.
  - destruct Hx as [E|Hx]; [congruence|]. pose proof (bid_strict_range l (k + 1) x Hx). lia.
  - destruct Hx as [E|Hx]; [congruence|]. destruct Hy as [E|Hy]; [congruence|]. apply IH; assumption.
Qed.

Lemma bid_one_bucket l x : In x l -> bucket_id [l] x = 0.
Proof. intros H. unfold bucket_id. cbn [bid_from]. apply mem_In in H. rewrite H. reflexivity. Qed.

Theorem all_tied_against_strict s l : NoDup l -> t0 s = t1 s ->
  kemeny_spec s [strict_of l] [l] * 2 = t0 s * (Z.of_nat (length l) * (Z.of_nat (length l) - 1)).
Proof.
  intros Nd T. unfold kemeny_spec. cbn [map]. unfold zsum at 1. cbn [fold_right]. rewrite Z.add_0_r.
  unfold kemeny_one. unfold elems. cbn [concat]. rewrite app_nil_r.
  rewrite (zsum_map_ext _ (fun _ => t0 s)).
  - rewrite zsum_const. rewrite <- ordpairs_length. lia.
  - intros [x y] Hp. cbn [fst snd]. destruct (ordpairs_in l x y Hp) as (Hx & Hy & Ne). specialize (Ne Nd).
    unfold placement_pen. rewrite (bid_one_bucket l x Hx), (bid_one_bucket l y Hy). cbn [Z.compare].
    unfold status, stat, bucket_id.
    pose proof (bid_strict_range l 0 x Hx) as Rx. pose proof (bid_strict_range l 0 y Hy) as Ry.
    pose proof (bid_strict_inj l Nd 0 x y Hx Hy Ne) as Nxy.
    destruct (bid_from 0 (strict_of l) x =? -1) eqn:E1; [apply Z.eqb_eq in E1; lia|].
    destruct (bid_from 0 (strict_of l) y =? -1) eqn:E2; [apply Z.eqb_eq in E2; lia|].
    cbn [negb andb].
    destruct (bid_from 0 (strict_of l) x <? bid_from 0 (strict_of l) y) eqn:L1; [reflexivity|].
    destruct (bid_from 0 (strict_of l) y <? bid_from 0 (strict_of l) x) eqn:L2; [unfold Tv, Tl; cbn [nth]; symmetry; exact T|].
    apply Z.ltb_ge in L1. apply Z.ltb_ge in L2. lia.
Qed.

(** ** the other extreme: the candidate is the strict ranking in the REVERSE order - every pair is inverted, B[1] per pair *)
Lemma elems_strict l : elems (strict_of l) = l.
Proof. unfold elems, strict_of. induction l as [|a l IH]; cbn [map concat app]; [reflexivity|]. rewrite IH. reflexivity. Qed.

Lemma bid_strict_lt l : NoDup l -> forall k x y, In (x, y) (ordpairs l) ->
  bid_from k (strict_of l) x < bid_from k (strict_of l) y.
Proof.
  induction l as [|a l IH]; intros Nd k x y H; [destruct H|].
  inversion Nd as [|? ? Ha Nl]; subst. cbn [ordpairs] in H. apply in_app_or in H.
  cbn [strict_of map bid_from]. rewrite !mem_single. fold (strict_of l).
  destruct H as [H|H].
  - apply in_map_iff in H as (z & E & Hz). inversion E; subst. rewrite Nat.eqb_refl.
    destruct (Nat.eqb_spec y x) as [->|Ne]; [contradiction|].
    pose proof (bid_strict_range l (k + 1) y Hz). lia.
  - destruct (ordpairs_in l x y H) as (Hx & Hy & _).
    destruct (Nat.eqb_spec x a) as [->|Nx]; [contradiction|]. destruct (Nat.eqb_spec y a) as [->|Ny]; [contradiction|].
    apply IH; assumption.
Qed.

Lemma ordpairs_app_in {A} (l1 l2 : list A) p :
  In p (ordpairs (l1 ++ l2)) -> In p (ordpairs l1) \/ In p (ordpairs l2) \/ (In (fst p) l1 /\ In (snd p) l2).
Proof.
  induction l1 as [|a l1 IH]; cbn [app ordpairs]; intros H; [right; left; exact H|].
  apply in_app_or in H as [H|H].
  - apply in_map_iff in H as (z & <- & Hz). apply in_app_or in Hz as [Hz|Hz].
    + left. apply in_or_app. left. apply in_map. exact Hz.
    + right. right. cbn [fst snd]. split; [left; reflexivity|exact Hz].
  - destruct (IH H) as [H1|[H2|[H3 H4]]].
    + left. apply in_or_app. right. exact H1.
    + right. left. exact H2.
    + right. right. split; [right; exact H3|exact H4].
Qed.

Lemma ordpairs_rev {A} (l : list A) x y : In (x, y) (ordpairs (rev l)) -> In (y, x) (ordpairs l).
Proof.
  induction l as [|a l IH]; cbn [rev ordpairs]; intros H; [exact H|].
  apply ordpairs_app_in in H as [H|[H|[H1 H2]]].
  - apply in_or_app. right. apply IH. exact H.
  - destruct H.
  - cbn [fst snd] in H1, H2. destruct H2 as [<-|[]]. apply in_or_app. left. apply in_map. apply in_rev. exact H1.
Qed.

Theorem reversed_against_strict s l : NoDup l ->
  kemeny_spec s [strict_of l] (strict_of (rev l)) * 2 = b1 s * (Z.of_nat (length l) * (Z.of_nat (length l) - 1)).
Proof.
  intros Nd. unfold kemeny_spec. cbn [map]. unfold zsum at 1. cbn [fold_right]. rewrite Z.add_0_r.
  unfold kemeny_one. rewrite elems_strict.
  rewrite (zsum_map_ext _ (fun _ => b1 s)).
  - rewrite zsum_const. pose proof (ordpairs_length (rev l)) as E. rewrite rev_length in E. rewrite <- E. ring.
  - intros [x y] Hp. cbn [fst snd].
    assert (Ndr : NoDup (rev l)) by (apply NoDup_rev; exact Nd).
    pose proof (bid_strict_lt (rev l) Ndr 0 x y Hp) as Lc.
    unfold placement_pen, bucket_id. rewrite (proj2 (Z.compare_lt_iff _ _) Lc).
    pose proof (ordpairs_rev l x y Hp) as Hq. pose proof (bid_strict_lt l Nd 0 y x Hq) as Lr.
    destruct (ordpairs_in l y x Hq) as (Hy & Hx & _).
    pose proof (bid_strict_range l 0 x Hx) as Rx. pose proof (bid_strict_range l 0 y Hy) as Ry.
    unfold status, stat, bucket_id.
    destruct (bid_from 0 (strict_of l) x =? -1) eqn:E1; [apply Z.eqb_eq in E1; lia|].
    destruct (bid_from 0 (strict_of l) y =? -1) eqn:E2; [apply Z.eqb_eq in E2; lia|].
    cbn [negb andb].
    destruct (bid_from 0 (strict_of l) x <? bid_from 0 (strict_of l) y) eqn:L1; [apply Z.ltb_lt in L1; lia|].
    destruct (bid_from 0 (strict_of l) y <? bid_from 0 (strict_of l) x) eqn:L2; [reflexivity|apply Z.ltb_ge in L2; lia].
Qed.
