(** Property C10, exact form: WHICH rankings PickAPerm returns, in which order and how many times.
    [pickaperm_spec] says the answer is a non-empty set of minimal inputs; here the answer is pinned as a list:
    all requested  -> the inputs of minimal score, in input order, each as many times as it occurs;
    one requested  -> the FIRST input of minimal score, alone. *)
From Corankco Require Import Prelude Scheme SchemeProof Rank KemenySpec CostTableProof EquivOrder Borda PickAPerm PickAPermProof.
Local Open Scope Z_scope.

Section Exact.
  Variable sc : ranking -> Z.

  Definition at_score (m : Z) (R : list ranking) : list ranking := filter (fun r => sc r =? m) R.

  Lemma at_score_all m l : (forall r, In r l -> sc r = m) -> at_score m l = l.
  Proof.
    induction l as [|a l IH]; intros H; simpl; [reflexivity|].
    rewrite (proj2 (Z.eqb_eq _ _) (H a (or_introl eq_refl))). f_equal. apply IH. intros r Hr. apply H. right. exact Hr.
  Qed.

  Lemma at_score_none m l : (forall r, In r l -> sc r <> m) -> at_score m l = [].
  Proof.
    induction l as [|a l IH]; intros H; simpl; [reflexivity|].
    rewrite (proj2 (Z.eqb_neq _ _) (H a (or_introl eq_refl))). apply IH. intros r Hr. apply H. right. exact Hr.
  Qed.

  Lemma at_score_app m l1 l2 : at_score m (l1 ++ l2) = at_score m l1 ++ at_score m l2.
  Proof. apply filter_app. Qed.

  (** all requested: the scan from [(Some m, acc)] ends on the inputs at the final minimum, in order *)
  Lemma scan_all_exact R : forall m acc,
    (forall r, In r acc -> sc r = m) ->
    exists m', fst (pick_scan false sc R (Some m) acc) = Some m' /\ m' <= m /\
               snd (pick_scan false sc R (Some m) acc) = at_score m' (acc ++ R).
  Proof.
    induction R as [|r R IH]; intros m acc H; simpl.
    - exists m. split; [reflexivity|]. split; [lia|]. rewrite app_nil_r. symmetry. apply at_score_all. exact H.
    - destruct (sc r <? m) eqn:E1.
      + apply Z.ltb_lt in E1.
        destruct (IH (sc r) [r]) as (m' & F & L & S); [intros x [<-|[]]; reflexivity|].
        exists m'. split; [exact F|]. split; [lia|]. rewrite S, (at_score_app m' acc).
        rewrite (at_score_none m' acc); [reflexivity|]. intros x Hx. rewrite (H x Hx). lia.
      + apply Z.ltb_ge in E1. destruct (sc r =? m) eqn:E2; simpl.
        * apply Z.eqb_eq in E2.
          destruct (IH m (acc ++ [r])) as (m' & F & L & S).
          { intros x Hx. apply in_app_or in Hx as [Hx|[<-|[]]]; [apply H; exact Hx|exact E2]. }
          exists m'. split; [exact F|]. split; [exact L|]. rewrite S, <- app_assoc. reflexivity.
        * apply Z.eqb_neq in E2.
          destruct (IH m acc H) as (m' & F & L & S).
          exists m'. split; [exact F|]. split; [exact L|]. rewrite S, !at_score_app. simpl.
          destruct (sc r =? m') eqn:E3; [apply Z.eqb_eq in E3; lia|reflexivity].
  Qed.

  Theorem pickaperm_on_all_exact R :
    R <> [] -> exists m, pickaperm_on false sc R = (Some m, at_score m R).
  Proof.
    intros HR. unfold pickaperm_on. destruct R as [|r R]; [contradiction|]. simpl.
    destruct (scan_all_exact R (sc r) [r]) as (m' & F & _ & S); [intros x [<-|[]]; reflexivity|].
    exists m'. destruct (pick_scan false sc R (Some (sc r)) [r]) as [b out]. simpl in F, S. subst. reflexivity.
  Qed.

  (** one requested: [a] is the first input of minimal score of [P ++ [a] ++ Q] *)
  Definition first_min (a : ranking) (R : list ranking) : Prop :=
    exists P Q, R = P ++ a :: Q /\ (forall x, In x P -> sc a < sc x) /\ (forall x, In x Q -> sc a <= sc x).

  Lemma scan_one_exact R : forall a,
    exists a', pick_scan true sc R (Some (sc a)) [a] = (Some (sc a'), [a']) /\ first_min a' (a :: R).
  Proof.
    induction R as [|r R IH]; intros a; simpl.
    - exists a. split; [reflexivity|]. exists [], []. split; [reflexivity|]. split; intros x [].
    - destruct (sc r <? sc a) eqn:E1.
      + apply Z.ltb_lt in E1. destruct (IH r) as (a' & E & (P & Q & EQ & HP & HQ)).
        exists a'. split; [exact E|]. exists (a :: P), Q. split; [simpl; rewrite <- EQ; reflexivity|].
        split; [|exact HQ]. intros x [<-|Hx]; [|apply HP; exact Hx].
        destruct P as [|p P]; simpl in EQ; injection EQ as E0 E'; [subst; exact E1|].
        subst p. specialize (HP r (or_introl eq_refl)). lia.
      + apply Z.ltb_ge in E1. rewrite andb_false_r.
        destruct (IH a) as (a' & E & (P & Q & EQ & HP & HQ)).
        exists a'. split; [exact E|].
        destruct P as [|p P]; simpl in EQ; injection EQ as E0 E'.
        * subst a' Q. exists [], (r :: R). split; [reflexivity|]. split; [intros x []|].
          intros x [<-|Hx]; [exact E1|apply HQ; exact Hx].
        * subst p R. exists (a :: r :: P), Q. split; [reflexivity|]. split; [|exact HQ].
          intros x [<-|[<-|Hx]]; [apply HP; left; reflexivity| |apply HP; right; exact Hx].
          specialize (HP a (or_introl eq_refl)). lia.
  Qed.

  Theorem pickaperm_on_one_exact R :
    R <> [] -> exists a, pickaperm_on true sc R = (Some (sc a), [a]) /\ first_min a R.
  Proof.
    intros HR. unfold pickaperm_on. destruct R as [|r R]; [contradiction|]. simpl. apply scan_one_exact.
  Qed.
End Exact.

(** at the level of the algorithm *)
Theorem pickaperm_all_exact s D :
  D <> [] -> (is_complete D = true \/ is_equivalent_to s unifying = true) ->
  exists m, pickaperm false s D = Ok (Some m, at_score (kemeny_spec s D) m (pick_inputs D)).
Proof.
  intros HD H. unfold pickaperm, pick_inputs.
  destruct (is_complete D) eqn:C.
  - destruct (pickaperm_on_all_exact (kemeny_spec s D) D HD) as (m & E). rewrite E. eauto.
  - destruct H as [H|H]; [discriminate|]. rewrite H.
    assert (HU : unified_rankings D <> []) by (unfold unified_rankings; destruct D; [contradiction|discriminate]).
    destruct (pickaperm_on_all_exact (kemeny_spec s D) _ HU) as (m & E). rewrite E. eauto.
Qed.

Theorem pickaperm_one_exact s D :
  D <> [] -> (is_complete D = true \/ is_equivalent_to s unifying = true) ->
  exists a, pickaperm true s D = Ok (Some (kemeny_spec s D a), [a]) /\ first_min (kemeny_spec s D) a (pick_inputs D).
Proof.
  intros HD H. unfold pickaperm, pick_inputs.
  destruct (is_complete D) eqn:C.
  - destruct (pickaperm_on_one_exact (kemeny_spec s D) D HD) as (a & E & F). rewrite E. eauto.
  - destruct H as [H|H]; [discriminate|]. rewrite H.
    assert (HU : unified_rankings D <> []) by (unfold unified_rankings; destruct D; [contradiction|discriminate]).
    destruct (pickaperm_on_one_exact (kemeny_spec s D) _ HU) as (a & E & F). rewrite E. eauto.
Qed.

(** * PickAPerm does not depend on which multiple of a scheme it is given
    two score functions that compare all rankings alike make the scan keep the same rankings at every step *)
Section SameOrder.
  Variables (one : bool) (sc1 sc2 : ranking -> Z).
  Hypothesis same : forall x y, sc1 x <= sc1 y <-> sc2 x <= sc2 y.

  Lemma same_ltb x y : (sc1 x <? sc1 y) = (sc2 x <? sc2 y).
  Proof.
    pose proof (same y x) as H. destruct (sc1 x <? sc1 y) eqn:E1, (sc2 x <? sc2 y) eqn:E2; try reflexivity;
      rewrite ?Z.ltb_lt, ?Z.ltb_ge in *; lia.
  Qed.

  Lemma same_eqb x y : (sc1 x =? sc1 y) = (sc2 x =? sc2 y).
  Proof.
    pose proof (same y x) as H. pose proof (same x y) as H'.
    destruct (sc1 x =? sc1 y) eqn:E1, (sc2 x =? sc2 y) eqn:E2; try reflexivity;
      rewrite ?Z.eqb_eq, ?Z.eqb_neq in *; lia.
  Qed.

  Lemma scan_same R : forall a acc,
    exists a', pick_scan one sc1 R (Some (sc1 a)) acc = (Some (sc1 a'), snd (pick_scan one sc1 R (Some (sc1 a)) acc)) /\
               pick_scan one sc2 R (Some (sc2 a)) acc = (Some (sc2 a'), snd (pick_scan one sc1 R (Some (sc1 a)) acc)).
  Proof.
    induction R as [|r R IH]; intros a acc; simpl.
    - exists a. split; reflexivity.
    - rewrite <- (same_ltb r a), <- (same_eqb r a).
      destruct (sc1 r <? sc1 a); [apply IH|].
      destruct ((sc1 r =? sc1 a) && negb one); apply IH.
  Qed.

  Theorem pickaperm_on_same R :
    R <> [] -> exists a out, pickaperm_on one sc1 R = (Some (sc1 a), out) /\ pickaperm_on one sc2 R = (Some (sc2 a), out).
  Proof.
    intros HR. unfold pickaperm_on. destruct R as [|r R]; [contradiction|]. simpl.
    destruct (scan_same R r [r]) as (a & E1 & E2). eauto.
  Qed.
End SameOrder.

(** two schemes the library calls equivalent: same rankings returned, scores reported for the same ranking *)
Theorem pickaperm_equivalent_schemes one s1 s2 D :
  nonneg s1 -> nonneg s2 -> is_equivalent_to s1 s2 = true -> D <> [] ->
  (is_complete D = true \/ (is_equivalent_to s1 unifying = true /\ is_equivalent_to s2 unifying = true)) ->
  exists a out, pickaperm one s1 D = Ok (Some (kemeny_spec s1 D a), out) /\
                pickaperm one s2 D = Ok (Some (kemeny_spec s2 D a), out).
Proof.
  intros N1 N2 E HD H. unfold pickaperm.
  assert (S : forall x y, kemeny_spec s1 D x <= kemeny_spec s1 D y <-> kemeny_spec s2 D x <= kemeny_spec s2 D y)
    by (intros x y; apply (equivalent_schemes_same_order s1 s2 N1 N2 E D x y)).
  destruct (is_complete D) eqn:C.
  - destruct (pickaperm_on_same one _ _ S D HD) as (a & out & E1 & E2). rewrite E1, E2. eauto.
  - destruct H as [H|[H1 H2]]; [discriminate|]. rewrite H1, H2.
    assert (HU : unified_rankings D <> []) by (unfold unified_rankings; destruct D; [contradiction|discriminate]).
    destruct (pickaperm_on_same one _ _ S _ HU) as (a & out & E1 & E2). rewrite E1, E2. eauto.
Qed.
