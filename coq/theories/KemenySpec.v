(** The generalized Kemeny score, literally as the property states it, and the pairwise cost
    table by definition; [score] of a ranking against a cost table. *)
From Corankco Require Import Prelude Scheme Rank.
Local Open Scope Z_scope.

(** penalty of one unordered pair {x,y} of candidate elements (x listed first) for one input ranking *)
Definition placement_pen (s : scheme) (c r : ranking) (x y : nat) : Z :=
  match Z.compare (bucket_id c x) (bucket_id c y) with
  | Lt => Bv s (status r x y)
  | Gt => Bv s (status r y x)
  | Eq => Tv s (status r x y)
  end.

Definition kemeny_one (s : scheme) (c r : ranking) : Z :=
  zsum (map (fun p => placement_pen s c r (fst p) (snd p)) (ordpairs (elems c))).

Definition kemeny_spec (s : scheme) (D : dataset) (c : ranking) : Z :=
  zsum (map (kemeny_one s c) D).

(** a cost table maps an ordered pair to (cost x before y, cost x after y, cost x tied with y) *)
Definition table := nat -> nat -> Z * Z * Z.

Definition cost_spec (s : scheme) (D : dataset) : table := fun x y =>
  (zsum (map (fun r => Bv s (status r x y)) D),
   zsum (map (fun r => Bv s (status r y x)) D),
   zsum (map (fun r => Tv s (status r x y)) D)).

Definition pick (K : table) (c : ranking) (x y : nat) : Z :=
  let '(b, a, t) := K x y in
  match Z.compare (bucket_id c x) (bucket_id c y) with
  | Lt => b | Gt => a | Eq => t
  end.

Definition score (K : table) (c : ranking) : Z :=
  zsum (map (fun p => pick K c (fst p) (snd p)) (ordpairs (elems c))).

Lemma zsum_swap {A B} (f : A -> B -> Z) (la : list A) (lb : list B) :
  zsum (map (fun a => zsum (map (fun b => f a b) lb)) la) =
  zsum (map (fun b => zsum (map (fun a => f a b) la)) lb).
Proof.
  induction la as [|a la IH]; simpl.
  - induction lb as [|b lb IHb]; simpl; [reflexivity|]. rewrite <- IHb. reflexivity.
  - rewrite IH. clear IH. induction lb as [|b lb IHb]; simpl; [reflexivity|]. rewrite <- IHb. lia.
Qed.

Lemma zsum_map_ext {A} (f g : A -> Z) l : (forall x, In x l -> f x = g x) -> zsum (map f l) = zsum (map g l).
Proof. induction l as [|a l IH]; simpl; intros H; [reflexivity|]. rewrite H, IH by auto. reflexivity. Qed.

(** the table entries selected by a candidate's placements add up to its Kemeny score *)
Theorem score_cost_spec s D c : score (cost_spec s D) c = kemeny_spec s D c.
Proof.
  unfold score, kemeny_spec, kemeny_one.
  rewrite (zsum_swap (fun r p => placement_pen s c r (fst p) (snd p))).
  apply zsum_map_ext. intros [x y] _. unfold pick, cost_spec, placement_pen. simpl.
  destruct (bucket_id c x ?= bucket_id c y); reflexivity.
Qed.

(** scores are non-negative for schemes with non-negative penalties *)
Lemma Bv_nonneg s i : nonneg s -> 0 <= Bv s i.
Proof.
  intros H. unfold nonneg in H. apply Forall_app in H as [H _]. rewrite Forall_forall in H.
  unfold Bv. destruct (nth_in_or_default i (Bl s) 0) as [Hi|Hi]; [apply H; assumption|rewrite Hi; lia].
Qed.
Lemma Tv_nonneg s i : nonneg s -> 0 <= Tv s i.
Proof.
  intros H. unfold nonneg in H. apply Forall_app in H as [_ H]. rewrite Forall_forall in H.
  unfold Tv. destruct (nth_in_or_default i (Tl s) 0) as [Hi|Hi]; [apply H; assumption|rewrite Hi; lia].
Qed.

Theorem kemeny_spec_nonneg s D c : nonneg s -> 0 <= kemeny_spec s D c.
Proof.
  intros H. unfold kemeny_spec. apply zsum_nonneg. intros z Hz. apply in_map_iff in Hz as (r & <- & _).
  unfold kemeny_one. apply zsum_nonneg. intros z Hz. apply in_map_iff in Hz as ([x y] & <- & _).
  unfold placement_pen. destruct (_ ?= _); auto using Bv_nonneg, Tv_nonneg.
Qed.
