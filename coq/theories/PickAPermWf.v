(** Property C03 for PickAPerm: every ranking it returns is a ranking with ties of exactly the universe. *)
From Corankco Require Import Prelude Scheme SchemeProof Rank KemenySpec Borda BordaProof PickAPerm PickAPermProof.
Local Open Scope Z_scope.

Definition wf_dataset (D : dataset) : Prop := forall r, In r D -> NoDup (elems r) /\ Forall (fun b => b <> []) r.

Lemma pick_inputs_wf D r : wf_dataset D -> In r (pick_inputs D) ->
  Permutation (elems r) (universe D) /\ Forall (fun b => b <> []) r.
Proof.
  intros W Hr. unfold pick_inputs in Hr. destruct (is_complete D) eqn:C.
  - destruct (W r Hr) as [Nr Ne]. split; [|exact Ne].
    apply NoDup_Permutation; [exact Nr|apply universe_NoDup|]. intros x. split.
    + intros Hx. apply universe_in. exists r. split; [exact Hr|exact Hx].
    + intros Hx. unfold is_complete in C. rewrite forallb_forall in C. specialize (C r Hr).
      rewrite forallb_forall in C. apply mem_In. apply C. exact Hx.
  - unfold unified_rankings in Hr. apply in_map_iff in Hr as (r0 & <- & H0).
    destruct (W r0 H0) as [Nr Ne].
    destruct (unify_perm (universe D) r0 (universe_NoDup D) Nr) as [P F].
    + intros x Hx. apply universe_in. exists r0. split; [exact H0|exact Hx].
    + split; [exact P|apply F; exact Ne].
Qed.

Theorem pickaperm_wf one s D m out : D <> [] -> wf_dataset D -> pickaperm one s D = Ok (m, out) ->
  out <> [] /\ (one = true -> length out = 1%nat) /\
  forall r, In r out -> Permutation (elems r) (universe D) /\ Forall (fun b => b <> []) r.
Proof.
  intros HD W E.
  assert (G : is_complete D = true \/ is_equivalent_to s unifying = true).
  { unfold pickaperm in E. destruct (is_complete D); [left; reflexivity|].
    destruct (is_equivalent_to s unifying); [right; reflexivity|discriminate]. }
  destruct (pickaperm_spec one s D HD G) as (m' & out' & E' & Ne & Hin & _ & _ & Hone).
  rewrite E in E'. injection E' as -> ->.
  split; [exact Ne|]. split; [exact Hone|]. intros r Hr. apply pick_inputs_wf; [exact W|]. apply Hin. exact Hr.
Qed.
