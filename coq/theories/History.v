(** Property C15: the abstract machine the library is supposed to refine.  In the model every value is
    immutable, so "the dataset is unchanged" holds by construction; what the theorems pin down is the
    observable behaviour a faithful implementation must have on shared objects: the state after any
    sequence of calls is the initial state, the outputs are those of the same calls on fresh copies, and a
    deterministic call repeated gives the same output.  Whether the Python objects refine this machine
    (no aliasing bug) is decided by the history correspondence, not by these theorems. *)
From Corankco Require Import Prelude.

Section Machine.
  Variables state op out : Type.
  Variable run : state -> op -> out.      (* what a call returns, as a function of the inputs only *)

  Definition step (st : state) (o : op) : state * out := (st, run st o).

  Fixpoint exec (st : state) (os : list op) : state * list out :=
    match os with
    | [] => (st, [])
    | o :: os' =>
        let '(st1, x) := step st o in
        let '(st2, xs) := exec st1 os' in (st2, x :: xs)
    end.

  Theorem step_pure st o : fst (step st o) = st.
  Proof. reflexivity. Qed.

  Theorem exec_state st os : fst (exec st os) = st.
  Proof.
    revert st; induction os as [|o os IH]; intros st; simpl; [reflexivity|].
    specialize (IH st). destruct (exec st os) as [st2 xs]. simpl in *. assumption.
  Qed.

  (** any sequence of runs on shared objects gives the same results as runs on fresh copies *)
  Theorem exec_outputs st os : snd (exec st os) = map (run st) os.
  Proof.
    revert st; induction os as [|o os IH]; intros st; simpl; [reflexivity|].
    specialize (IH st). destruct (exec st os) as [st2 xs]. simpl in *. congruence.
  Qed.

  Theorem repeatable st o os1 os2 :
    nth (length os1) (snd (exec st (os1 ++ o :: os2))) (run st o) =
    nth (length os1 + 1 + length os2) (snd (exec st (os1 ++ o :: os2 ++ [o]))) (run st o).
  Proof.
    rewrite !exec_outputs, !map_app. simpl map.
    rewrite app_nth2 by (rewrite map_length; lia). rewrite map_length, Nat.sub_diag. simpl.
    rewrite app_nth2 by (rewrite map_length; lia). rewrite map_length.
    replace (length os1 + 1 + length os2 - length os1)%nat with (S (length os2)) by lia. simpl.
    rewrite map_app. simpl. rewrite app_nth2 by (rewrite map_length; lia). rewrite map_length, Nat.sub_diag. reflexivity.
  Qed.
End Machine.
