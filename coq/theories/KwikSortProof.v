(** Property C11 *)
From Corankco Require Import Prelude Scheme Rank KemenySpec CostTableProof GroupSort KwikSort.
Local Open Scope Z_scope.

(** * [_where_should_it_be] is the tie-preferring, then before-preferring arg-min of the definitional costs *)
Definition rowcost (s : scheme) (p o : Z) : Z * Z * Z :=
  (Bv s (stat o p), Tv s (stat o p), Bv s (stat p o)).

Definition pref_of (b a t : Z) : Z :=
  if t <=? b then (if t <=? a then 0 else 1) else if b <=? a then -1 else 1.

Lemma count2_cons P p o pp po : count2 P (p :: pp) (o :: po) = ind (P p o) + count2 P pp po.
Proof. reflexivity. Qed.

Lemma row_identity s p o :
  -1 <= p -> -1 <= o ->
  let ob := ind (o <? p) in let om := ind (o =? -1) in let bn := ind (p + o =? -2) in
  let sm := ind (p =? o) in let pm := ind (p =? -1) in
  b0 s * (ob - om + bn) + b1 s * (1 - ob - sm - pm + bn) + b2 s * (sm - bn) + b3 s * (pm - bn) + b4 s * (om - bn) + b5 s * bn
    = Bv s (stat o p) /\
  t0 s * (ob - om + bn) + t1 s * (1 - ob - sm - pm + bn) + t2 s * (sm - bn) + t3 s * (pm - bn) + t4 s * (om - bn) + t5 s * bn
    = Tv s (stat o p) /\
  b0 s * (1 - ob - sm - pm + bn) + b1 s * (ob - om + bn) + b2 s * (sm - bn) + b3 s * (om - bn) + b4 s * (pm - bn) + b5 s * bn
    = Bv s (stat p o).
Proof.
  intros Hp Ho. unfold stat, ind.
  destruct (p =? -1) eqn:E1; destruct (o =? -1) eqn:E2; simpl negb; simpl andb.
  - replace (o <? p) with false by lia. replace (p + o =? -2) with true by lia. replace (p =? o) with true by lia.
    unfold Bv, Tv, Bl, Tl; simpl. lia.
  - replace (o <? p) with false by lia. replace (p + o =? -2) with false by lia. replace (p =? o) with false by lia.
    unfold Bv, Tv, Bl, Tl; simpl. lia.
  - replace (o <? p) with true by lia. replace (p + o =? -2) with false by lia. replace (p =? o) with false by lia.
    unfold Bv, Tv, Bl, Tl; simpl. lia.
  - replace (p + o =? -2) with false by lia.
    destruct (o <? p) eqn:E3; destruct (p <? o) eqn:E4; destruct (p =? o) eqn:E5; try lia;
      unfold Bv, Tv, Bl, Tl; simpl; lia.
Qed.

Lemma where_should_rows s (l : list (Z * Z)) :
  Forall (fun x => -1 <= fst x /\ -1 <= snd x) l ->
  where_should s (map fst l) (map snd l) =
  pref_of (zsum (map (fun x => Bv s (stat (snd x) (fst x))) l))
          (zsum (map (fun x => Bv s (stat (fst x) (snd x))) l))
          (zsum (map (fun x => Tv s (stat (snd x) (fst x))) l)).
Proof.
  intros H. unfold where_should, pref_of.
  set (pp := map fst l). set (po := map snd l).
  assert (G : b0 s * (count2 (fun p o => o <? p) pp po - count2 (fun _ o => o =? -1) pp po + count2 (fun p o => p + o =? -2) pp po)
            + b1 s * (Z.of_nat (length pp) - count2 (fun p o => o <? p) pp po - count2 (fun p o => p =? o) pp po
                      - count2 (fun p _ => p =? -1) pp po + count2 (fun p o => p + o =? -2) pp po)
            + b2 s * (count2 (fun p o => p =? o) pp po - count2 (fun p o => p + o =? -2) pp po)
            + b3 s * (count2 (fun p _ => p =? -1) pp po - count2 (fun p o => p + o =? -2) pp po)
            + b4 s * (count2 (fun _ o => o =? -1) pp po - count2 (fun p o => p + o =? -2) pp po)
            + b5 s * count2 (fun p o => p + o =? -2) pp po = zsum (map (fun x => Bv s (stat (snd x) (fst x))) l)
            /\
            t0 s * (count2 (fun p o => o <? p) pp po - count2 (fun _ o => o =? -1) pp po + count2 (fun p o => p + o =? -2) pp po)
            + t1 s * (Z.of_nat (length pp) - count2 (fun p o => o <? p) pp po - count2 (fun p o => p =? o) pp po
                      - count2 (fun p _ => p =? -1) pp po + count2 (fun p o => p + o =? -2) pp po)
            + t2 s * (count2 (fun p o => p =? o) pp po - count2 (fun p o => p + o =? -2) pp po)
            + t3 s * (count2 (fun p _ => p =? -1) pp po - count2 (fun p o => p + o =? -2) pp po)
            + t4 s * (count2 (fun _ o => o =? -1) pp po - count2 (fun p o => p + o =? -2) pp po)
            + t5 s * count2 (fun p o => p + o =? -2) pp po = zsum (map (fun x => Tv s (stat (snd x) (fst x))) l)
            /\
            b0 s * (Z.of_nat (length pp) - count2 (fun p o => o <? p) pp po - count2 (fun p o => p =? o) pp po
                      - count2 (fun p _ => p =? -1) pp po + count2 (fun p o => p + o =? -2) pp po)
            + b1 s * (count2 (fun p o => o <? p) pp po - count2 (fun _ o => o =? -1) pp po + count2 (fun p o => p + o =? -2) pp po)
            + b2 s * (count2 (fun p o => p =? o) pp po - count2 (fun p o => p + o =? -2) pp po)
            + b3 s * (count2 (fun _ o => o =? -1) pp po - count2 (fun p o => p + o =? -2) pp po)
            + b4 s * (count2 (fun p _ => p =? -1) pp po - count2 (fun p o => p + o =? -2) pp po)
            + b5 s * count2 (fun p o => p + o =? -2) pp po = zsum (map (fun x => Bv s (stat (fst x) (snd x))) l)).
  { unfold pp, po. clear pp po. induction l as [|[p o] l IH]; [simpl; unfold count2; simpl; lia|].
    inversion H as [|? ? [Hp Ho] Hl]; subst. specialize (IH Hl). destruct IH as (I1 & I2 & I3).
    cbn [map fst snd length]. rewrite !count2_cons. cbn [zsum fold_right].
    fold (zsum (map (fun x => Bv s (stat (snd x) (fst x))) l)).
    fold (zsum (map (fun x => Tv s (stat (snd x) (fst x))) l)).
    fold (zsum (map (fun x => Bv s (stat (fst x) (snd x))) l)).
    rewrite <- I1, <- I2, <- I3. simpl fst in Hp. simpl snd in Ho.
    destruct (row_identity s p o Hp Ho) as (R1 & R2 & R3). cbv zeta in R1, R2, R3.
    rewrite <- R1, <- R2, <- R3. rewrite Nat2Z.inj_succ. repeat split; ring. }
  destruct G as (G1 & G2 & G3). rewrite G1, G2, G3. reflexivity.
Qed.

Definition pref (s : scheme) (D : dataset) (p o : nat) : Z :=
  let '(b, a, t) := cost_spec s D o p in pref_of b a t.

Theorem where_eq_pref s D p o : kwik_w s D p o = pref s D p o.
Proof.
  unfold kwik_w, pref, cost_spec, row.
  set (l := map (fun r => (position r p, position r o)) D).
  assert (E1 : map (fun r => position r p) D = map fst l) by (unfold l; rewrite map_map; reflexivity).
  assert (E2 : map (fun r => position r o) D = map snd l) by (unfold l; rewrite map_map; reflexivity).
  rewrite E1, E2, where_should_rows.
  - unfold l. rewrite !map_map. simpl.
    rewrite (zsum_map_ext _ (fun r => Bv s (status r o p))) by (intros; apply f_equal, stat_position_bucket_id).
    rewrite (zsum_map_ext (fun x => Bv s (stat (position x p) (position x o))) (fun r => Bv s (status r p o)))
      by (intros; apply f_equal, stat_position_bucket_id).
    rewrite (zsum_map_ext (fun x => Tv s (stat (position x o) (position x p))) (fun r => Tv s (status r o p)))
      by (intros; apply f_equal, stat_position_bucket_id).
    reflexivity.
  - unfold l. rewrite Forall_map, Forall_forall. intros r _. simpl. unfold position.
    destruct (pos_from_range 0 r p ltac:(lia)); destruct (pos_from_range 0 r o ltac:(lia)); lia.
Qed.

(** * structure of the recursion, for every script and every comparison function *)
Section KwikProof.
  Variable w : nat -> nat -> Z.

  Lemma part_in pivot rem k e :
    In e (part w pivot rem k) <-> In e rem /\ e <> pivot /\ Z.sgn (w pivot e) = k.
  Proof.
    unfold part. rewrite filter_In, andb_true_iff, negb_true_iff, Nat.eqb_neq, Z.eqb_eq. tauto.
  Qed.

  Lemma part_NoDup pivot rem k : NoDup rem -> NoDup (part w pivot rem k).
  Proof. apply NoDup_filter. Qed.

  Lemma part_length pivot rem k : NoDup rem -> In pivot rem -> (length (part w pivot rem k) < length rem)%nat.
  Proof.
    intros Nd Hp. assert (H : (length (pivot :: part w pivot rem k) <= length rem)%nat).
    { apply NoDup_incl_length.
      - constructor; [rewrite part_in; tauto|apply part_NoDup; assumption].
      - intros e [<-|He]; [assumption|apply part_in in He; tauto]. }
    simpl in H. lia.
  Qed.

  Lemma sgn_cases z : Z.sgn z = -1 \/ Z.sgn z = 0 \/ Z.sgn z = 1.
  Proof. destruct z; simpl; auto. Qed.

  Lemma partition_perm pivot rem :
    NoDup rem -> In pivot rem ->
    Permutation (part w pivot rem (-1) ++ (pivot :: part w pivot rem 0) ++ part w pivot rem 1) rem.
  Proof.
    intros Nd Hp. apply NoDup_Permutation; [| assumption |].
    - apply NoDup_app_intro; [apply part_NoDup; assumption| |].
      + simpl. constructor.
        * rewrite in_app_iff, !part_in. tauto.
        * apply NoDup_app_intro; try (apply part_NoDup; assumption).
          intros e H1 H2. apply part_in in H1, H2. lia.
      + intros e H1 H2. apply part_in in H1. simpl in H2. rewrite in_app_iff, !part_in in H2.
        destruct H2 as [<-|[H2|H2]]; [tauto|lia|lia].
    - intros e. rewrite in_app_iff. simpl. rewrite in_app_iff, !part_in. split.
      + intros [H|[<-|[H|H]]]; tauto.
      + intros He. destruct (Nat.eq_dec e pivot) as [->|Ne]; [auto|].
        destruct (sgn_cases (w pivot e)) as [S|[S|S]]; [left|right; right; left|right; right; right]; tauto.
  Qed.

  Lemma nth_mod_in (rem : list nat) k : rem <> [] -> In (nth (Nat.modulo k (length rem)) rem 0%nat) rem.
  Proof.
    intros H. apply nth_In. apply Nat.mod_upper_bound. destruct rem; [contradiction|simpl; lia].
  Qed.

  (** induction principle over the results of the recursion *)
  Theorem kwik_result_ind (Q : list nat -> ranking -> Prop) :
    Q [] [] -> (forall x, Q [x] [[x]]) ->
    (forall rem pivot cb ca,
        NoDup rem -> In pivot rem ->
        Permutation (concat cb) (part w pivot rem (-1)) -> Permutation (concat ca) (part w pivot rem 1) ->
        Forall (fun b => b <> []) cb -> Forall (fun b => b <> []) ca ->
        Q (part w pivot rem (-1)) cb -> Q (part w pivot rem 1) ca ->
        Q rem (cb ++ [pivot :: part w pivot rem 0] ++ ca)) ->
    forall fuel script rem,
      (length rem < fuel)%nat -> rem <> [] -> NoDup rem ->
      exists c script', kwik w fuel script rem = Some (c, script') /\
                        Permutation (concat c) rem /\ Forall (fun b => b <> []) c /\ Q rem c.
  Proof.
    intros Q0 Q1 Qstep. induction fuel as [|f IH]; intros script rem Hf Hne Nd; [lia|].
    assert (SUB : forall script l, NoDup l -> (length l < f)%nat ->
              exists c script', sub (kwik w f) script l = Some (c, script') /\
                                Permutation (concat c) l /\ Forall (fun b => b <> []) c /\ Q l c).
    { intros sc l Ndl Hl. destruct l as [|x [|y l]].
      - exists [], sc. simpl. repeat split; auto.
      - exists [[x]], sc. simpl. repeat split; auto. repeat constructor. discriminate.
      - apply IH; [assumption|discriminate|assumption]. }
    cbn [kwik]. destruct rem as [|r0 rem0] eqn:Erem; [contradiction|]. rewrite <- Erem in *.
    set (pivot := nth (Nat.modulo (hd 0%nat script) (length rem)) rem 0%nat).
    assert (Hp : In pivot rem) by (apply nth_mod_in; assumption).
    destruct (SUB (tl script) (part w pivot rem (-1)) (part_NoDup _ _ _ Nd)) as (cb & s2 & Eb & Pb & Nb & Qb).
    { pose proof (part_length pivot rem (-1) Nd Hp). lia. }
    destruct (SUB s2 (part w pivot rem 1) (part_NoDup _ _ _ Nd)) as (ca & s3 & Ea & Pa & Na & Qa).
    { pose proof (part_length pivot rem 1 Nd Hp). lia. }
    rewrite Erem in *. fold pivot. rewrite <- Erem in *. rewrite Eb, Ea.
    exists (cb ++ [pivot :: part w pivot rem 0] ++ ca), s3. split; [reflexivity|]. split; [|split].
    - rewrite !concat_app. simpl. rewrite app_nil_r, Pb, Pa. apply partition_perm; assumption.
    - apply Forall_app. split; [assumption|]. constructor; [discriminate|assumption].
    - apply Qstep; assumption.
  Qed.
End KwikProof.

(** every script, every dataset: a partition of the elements into non-empty buckets *)
Theorem kwik_wf w fuel script rem :
  (length rem < fuel)%nat -> rem <> [] -> NoDup rem ->
  exists c script', kwik w fuel script rem = Some (c, script') /\
                    Permutation (concat c) rem /\ Forall (fun b => b <> []) c.
Proof.
  intros Hf Hne Nd.
  destruct (kwik_result_ind w (fun _ _ => True) I (fun _ => I) (fun _ _ _ _ _ _ _ _ _ _ _ _ => I) fuel script rem Hf Hne Nd)
    as (c & s' & E & P & N & _). eauto.
Qed.

(** * coherent preferences: the result is the target ranking, whatever the pivots *)
Section Coherent.
  Variable w : nat -> nat -> Z.
  Variable R : ranking.
  Variable U : list nat.
  Hypothesis coh : forall p o, In p U -> In o U -> p <> o ->
    (Z.sgn (w p o) = -1 <-> bucket_id R o < bucket_id R p) /\
    (Z.sgn (w p o) = 0 <-> bucket_id R o = bucket_id R p).

  Lemma zleb_total a b : (a <=? b) = true \/ (b <=? a) = true.
  Proof. lia. Qed.
  Lemma zleb_trans a b c : (a <=? b) = true -> (b <=? c) = true -> (a <=? c) = true.
  Proof. lia. Qed.

  Theorem kwik_coherent fuel script rem :
    (length rem < fuel)%nat -> rem <> [] -> NoDup rem -> incl rem U ->
    exists c script', kwik w fuel script rem = Some (c, script') /\
                      Permutation (concat c) rem /\ Forall (fun b => b <> []) c /\
                      grouped Z.leb (bucket_id R) c.
  Proof.
    intros Hf Hne Nd Hin.
    destruct (kwik_result_ind w (fun rem c => incl rem U -> grouped Z.leb (bucket_id R) c)) with (fuel := fuel) (script := script) (rem := rem)
      as (c & s' & E & P & N & Q); try assumption.
    - intros _. constructor.
    - intros x _. apply grouped_single; [discriminate|].
      intros a b [<-|[]] [<-|[]]. unfold keq, kle. lia.
    - clear Hf Hne Nd Hin rem. intros rem pivot cb ca Nd Hp Pb Pa Nb Na Qb Qa Hin.
      assert (Hb : incl (part w pivot rem (-1)) U) by (intros e He; apply part_in in He; apply Hin; tauto).
      assert (Ha : incl (part w pivot rem 1) U) by (intros e He; apply part_in in He; apply Hin; tauto).
      specialize (Qb Hb). specialize (Qa Ha).
      assert (HpU : In pivot U) by (apply Hin; assumption).
      assert (Bef : forall e, In e (concat cb) -> bucket_id R e < bucket_id R pivot).
      { intros e He. apply (Permutation_in _ Pb) in He. apply part_in in He as (H1 & H2 & H3).
        apply (coh pivot e); auto. }
      assert (Aft : forall e, In e (concat ca) -> bucket_id R pivot < bucket_id R e).
      { intros e He. apply (Permutation_in _ Pa) in He. apply part_in in He as (H1 & H2 & H3).
        destruct (coh pivot e HpU (Hin e H1) ltac:(auto)) as [C1 C2].
        destruct (Z.lt_trichotomy (bucket_id R e) (bucket_id R pivot)) as [L|[L|L]]; [|apply C2 in L; lia|assumption].
        apply C1 in L. lia. }
      assert (Same : forall e, In e (pivot :: part w pivot rem 0) -> bucket_id R e = bucket_id R pivot).
      { intros e [<-|He]; [reflexivity|]. apply part_in in He as (H1 & H2 & H3). apply (coh pivot e); auto. }
      apply grouped_app; [assumption| |].
      + apply grouped_app; [| assumption |].
        * apply grouped_single; [discriminate|].
          intros a b Ha' Hb'. unfold keq, kle. rewrite (Same a Ha'), (Same b Hb'). lia.
        * intros x y Hx Hy. simpl in Hx. rewrite app_nil_r in Hx. unfold klt.
          rewrite (Same x Hx). specialize (Aft y Hy). lia.
      + intros x y Hx Hy. unfold klt. specialize (Bef x Hx).
        rewrite concat_app in Hy. apply in_app_or in Hy as [Hy|Hy].
        * simpl in Hy. rewrite app_nil_r in Hy. rewrite (Same y Hy). lia.
        * specialize (Aft y Hy). lia.
    - exists c, s'. auto.
  Qed.

  (** read through bucket ids: the result orders and ties the elements exactly as [R] does *)
  Theorem kwik_coherent_order fuel script :
    (length U < fuel)%nat -> U <> [] -> NoDup U ->
    exists c script', kwik w fuel script U = Some (c, script') /\
      Permutation (concat c) U /\ Forall (fun b => b <> []) c /\
      forall x y, In x U -> In y U ->
        (bucket_id c x < bucket_id c y <-> bucket_id R x < bucket_id R y) /\
        (bucket_id c x = bucket_id c y <-> bucket_id R x = bucket_id R y).
  Proof.
    intros Hf Hne Nd.
    destruct (kwik_coherent fuel script U Hf Hne Nd (incl_refl U)) as (c & s' & E & P & N & G).
    exists c, s'. split; [assumption|]. split; [assumption|]. split; [assumption|].
    intros x y Hx Hy.
    assert (Ndc : NoDup (concat c)) by (eapply Permutation_NoDup; [symmetry; exact P|assumption]).
    assert (Ix : In x (concat c)) by (eapply Permutation_in; [symmetry; exact P|assumption]).
    assert (Iy : In y (concat c)) by (eapply Permutation_in; [symmetry; exact P|assumption]).
    destruct (grouped_bucket_id Z Z.leb zleb_total (bucket_id R) c x y Ndc G Ix Iy) as [L Eq].
    unfold klt, keq, kle in L, Eq. split; [rewrite L|rewrite Eq]; lia.
  Qed.
End Coherent.

(** * at the level of a dataset *)
Lemma pref_of_range b a t : pref_of b a t = -1 \/ pref_of b a t = 0 \/ pref_of b a t = 1.
Proof. unfold pref_of. destruct (t <=? b); [destruct (t <=? a)|destruct (b <=? a)]; auto. Qed.

Lemma sgn_pref s D p o : Z.sgn (kwik_w s D p o) = pref s D p o.
Proof.
  rewrite where_eq_pref. unfold pref. destruct (cost_spec s D o p) as [[b a] t].
  destruct (pref_of_range b a t) as [E|[E|E]]; rewrite E; reflexivity.
Qed.

(** If the cheapest placements (tie preferred on equal cost, then before) form the ranking with ties
    [R], KwikSort returns R (same order, same ties) for every sequence of pivot choices and every
    listing of the universe. *)
Theorem kwiksort_coherent s D R U0 script :
  U0 <> [] -> NoDup U0 ->
  (forall p o, In p U0 -> In o U0 -> p <> o ->
     (pref s D p o = -1 <-> bucket_id R o < bucket_id R p) /\
     (pref s D p o = 0 <-> bucket_id R o = bucket_id R p)) ->
  exists c, kwiksort s D U0 script = Some c /\
    Permutation (elems c) U0 /\ Forall (fun b => b <> []) c /\
    forall x y, In x U0 -> In y U0 ->
      (bucket_id c x < bucket_id c y <-> bucket_id R x < bucket_id R y) /\
      (bucket_id c x = bucket_id c y <-> bucket_id R x = bucket_id R y).
Proof.
  intros Hne Nd Coh. unfold kwiksort.
  destruct (kwik_coherent_order (kwik_w s D) R U0) with (fuel := S (length U0)) (script := script)
    as (c & s' & E & P & N & O); try assumption; try lia.
  - intros p o Hp Ho Hpo. rewrite sgn_pref. apply Coh; assumption.
  - rewrite E. exists c. auto.
Qed.

Lemma zsum_repeat {A} (f : A -> Z) x m : zsum (map f (repeat x m)) = Z.of_nat m * f x.
Proof. induction m as [|m IH]; [reflexivity|]. cbn [repeat map]. unfold zsum in *. cbn [fold_right]. rewrite IH. lia. Qed.

(** a dataset of identical rankings is returned unchanged whenever breaking a tie costs something *)
Theorem kwiksort_identical s R m U0 script :
  valid s -> 0 < t0 s -> (0 < m)%nat -> wf_ranking R ->
  U0 <> [] -> NoDup U0 -> (forall x, In x U0 -> ranked R x) ->
  exists c, kwiksort s (repeat R m) U0 script = Some c /\
    Permutation (elems c) U0 /\ Forall (fun b => b <> []) c /\
    forall x y, In x U0 -> In y U0 ->
      (bucket_id c x < bucket_id c y <-> bucket_id R x < bucket_id R y) /\
      (bucket_id c x = bucket_id c y <-> bucket_id R x = bucket_id R y).
Proof.
  intros [Hn (R0 & R1 & R2 & R3 & R4 & R5)] Ht Hm HR Hne Nd Hin.
  apply kwiksort_coherent; try assumption.
  intros p o Hp Ho Hpo. unfold pref, cost_spec. rewrite !zsum_repeat.
  assert (Po : bucket_id R o <> -1) by (intros E; apply bucket_id_unranked in E; apply E, Hin, Ho).
  assert (Pp : bucket_id R p <> -1) by (intros E; apply bucket_id_unranked in E; apply E, Hin, Hp).
  unfold status, stat.
  replace (bucket_id R o =? -1) with false by lia. replace (bucket_id R p =? -1) with false by lia. simpl negb. simpl andb.
  assert (Hm' : 0 < Z.of_nat m) by lia.
  unfold nonneg, Bl, Tl in Hn. simpl in Hn.
  repeat match goal with H : Forall _ (_ :: _) |- _ => inversion H; clear H; subst end.
  destruct (bucket_id R o <? bucket_id R p) eqn:E1; destruct (bucket_id R p <? bucket_id R o) eqn:E2; try lia.
  - unfold Bv, Tv, Bl, Tl; simpl nth. unfold pref_of. rewrite R0.
    replace (Z.of_nat m * t0 s <=? Z.of_nat m * 0) with false by nia.
    replace (Z.of_nat m * 0 <=? Z.of_nat m * b1 s) with true by nia. split; split; intros; lia.
  - unfold Bv, Tv, Bl, Tl; simpl nth. unfold pref_of. rewrite R0, <- R3.
    destruct (Z.of_nat m * t0 s <=? Z.of_nat m * b1 s) eqn:E3.
    + replace (Z.of_nat m * t0 s <=? Z.of_nat m * 0) with false by nia. split; split; intros; lia.
    + replace (Z.of_nat m * b1 s <=? Z.of_nat m * 0) with false by nia. split; split; intros; lia.
  - unfold Bv, Tv, Bl, Tl; simpl nth. unfold pref_of. rewrite R4.
    replace (Z.of_nat m * 0 <=? Z.of_nat m * b2 s) with true by nia. split; split; intros; lia.
Qed.

(** * every recursion step places each element w.r.t. its pivot according to [w] *)
Lemma bid_from_app' k r r' x :
  bid_from k (r ++ r') x = if mem x (concat r) then bid_from k r x else bid_from (k + Z.of_nat (length r)) r' x.
Proof.
  revert k; induction r as [|b r IH]; intros k; simpl; [f_equal; lia|].
  unfold mem at 2. rewrite existsb_app. fold (mem x b). fold (mem x (concat r)).
  destruct (mem x b); simpl; [reflexivity|]. rewrite IH. destruct (mem x (concat r)); [reflexivity|].
  f_equal. lia.
Qed.

Lemma bid_from_bound k r x : 0 <= k -> In x (concat r) -> k <= bid_from k r x < k + Z.of_nat (length r).
Proof.
  revert k; induction r as [|b r IH]; intros k Hk Hx; [destruct Hx|]. simpl in *.
  destruct (mem x b) eqn:E; [lia|]. apply mem_false in E. apply in_app_or in Hx as [Hx|Hx]; [contradiction|].
  specialize (IH (k + 1) ltac:(lia) Hx). lia.
Qed.

Lemma kwik_unfold w f script rem :
  rem <> [] ->
  kwik w (S f) script rem =
  let pivot := nth (Nat.modulo (hd 0%nat script) (length rem)) rem 0%nat in
  match sub (kwik w f) (tl script) (part w pivot rem (-1)) with
  | None => None
  | Some (cb, script2) =>
      match sub (kwik w f) script2 (part w pivot rem 1) with
      | None => None
      | Some (ca, script3) => Some (cb ++ [pivot :: part w pivot rem 0] ++ ca, script3)
      end
  end.
Proof. intros H. destruct rem; [contradiction|reflexivity]. Qed.

Lemma sub_some_perm w f :
  (forall script rem c s', kwik w f script rem = Some (c, s') -> NoDup rem -> Permutation (concat c) rem) ->
  forall sc l cb sb, NoDup l -> sub (kwik w f) sc l = Some (cb, sb) -> Permutation (concat cb) l.
Proof.
  intros IH sc l cb sb Ndl Hs. destruct l as [|x [|y l]]; simpl in Hs.
  - inversion Hs; subst. reflexivity.
  - inversion Hs; subst. reflexivity.
  - eapply IH; eassumption.
Qed.

Lemma kwik_some_perm w fuel : forall script rem c s',
  kwik w fuel script rem = Some (c, s') -> NoDup rem -> Permutation (concat c) rem.
Proof.
  induction fuel as [|f IH]; intros script rem c s' E Nd; [discriminate|].
  assert (Hne : rem <> []) by (intros ->; discriminate).
  rewrite kwik_unfold in E by assumption. cbv zeta in E.
  set (pivot := nth (Nat.modulo (hd 0%nat script) (length rem)) rem 0%nat) in *.
  assert (Hp : In pivot rem) by (apply nth_mod_in; assumption).
  destruct (sub (kwik w f) (tl script) (part w pivot rem (-1))) as [[cb s2]|] eqn:Eb; [|discriminate].
  destruct (sub (kwik w f) s2 (part w pivot rem 1)) as [[ca s3]|] eqn:Ea; [|discriminate].
  inversion E; subst c s'.
  pose proof (sub_some_perm w f IH _ _ _ _ (part_NoDup w pivot rem (-1) Nd) Eb) as Pb.
  pose proof (sub_some_perm w f IH _ _ _ _ (part_NoDup w pivot rem 1 Nd) Ea) as Pa.
  rewrite !concat_app.
  replace (concat [pivot :: part w pivot rem 0]) with (pivot :: part w pivot rem 0) by (simpl; rewrite app_nil_r; reflexivity).
  etransitivity; [|apply (partition_perm w pivot rem Nd Hp)].
  apply Permutation_app; [exact Pb|]. apply Permutation_app; [reflexivity|exact Pa].
Qed.

Theorem kwik_step_respects_pivot w f script rem c s' :
  kwik w (S f) script rem = Some (c, s') -> NoDup rem -> rem <> [] ->
  let pivot := nth (Nat.modulo (hd 0%nat script) (length rem)) rem 0%nat in
  forall e, In e rem -> e <> pivot ->
    (Z.sgn (w pivot e) = -1 -> bucket_id c e < bucket_id c pivot) /\
    (Z.sgn (w pivot e) = 0 -> bucket_id c e = bucket_id c pivot) /\
    (Z.sgn (w pivot e) = 1 -> bucket_id c pivot < bucket_id c e).
Proof.
  intros E Nd Hne pivot e He Hep.
  assert (Hp : In pivot rem) by (apply nth_mod_in; assumption).
  rewrite kwik_unfold in E by assumption. cbv zeta in E. fold pivot in E.
  destruct (sub (kwik w f) (tl script) (part w pivot rem (-1))) as [[cb s2]|] eqn:Eb; [|discriminate].
  destruct (sub (kwik w f) s2 (part w pivot rem 1)) as [[ca s3]|] eqn:Ea; [|discriminate].
  inversion E; subst c s'.
  pose proof (sub_some_perm w f (kwik_some_perm w f) _ _ _ _ (part_NoDup w pivot rem (-1) Nd) Eb) as Pb.
  pose proof (sub_some_perm w f (kwik_some_perm w f) _ _ _ _ (part_NoDup w pivot rem 1 Nd) Ea) as Pa.
  set (same := pivot :: part w pivot rem 0).
  assert (Hcb : forall x, mem x (concat cb) = true <-> In x rem /\ x <> pivot /\ Z.sgn (w pivot x) = -1).
  { intros x. rewrite mem_In. rewrite <- part_in. split; intros H; [eapply Permutation_in; eassumption|].
    eapply Permutation_in; [symmetry; eassumption|assumption]. }
  assert (Hca : forall x, In x (concat ca) <-> In x rem /\ x <> pivot /\ Z.sgn (w pivot x) = 1).
  { intros x. rewrite <- part_in. split; intros H; [eapply Permutation_in; eassumption|].
    eapply Permutation_in; [symmetry; eassumption|assumption]. }
  assert (Bp : bucket_id (cb ++ same :: ca) pivot = Z.of_nat (length cb)).
  { unfold bucket_id. rewrite bid_from_app'. destruct (mem pivot (concat cb)) eqn:M.
    - apply Hcb in M. tauto.
    - cbn [bid_from]. unfold same. simpl mem. rewrite Nat.eqb_refl. simpl. lia. }
  rewrite Bp. unfold bucket_id. rewrite bid_from_app'.
  destruct (mem e (concat cb)) eqn:M.
  - pose proof (proj1 (Hcb e) M) as (_ & _ & S).
    pose proof (bid_from_bound 0 cb e ltac:(lia) (proj1 (mem_In _ _) M)) as B.
    repeat split; intros S'; lia.
  - assert (NS : Z.sgn (w pivot e) <> -1).
    { intros S. assert (X : mem e (concat cb) = true) by (apply Hcb; auto). congruence. }
    cbn [bid_from]. destruct (mem e same) eqn:Ms.
    + apply mem_In in Ms. unfold same in Ms. destruct Ms as [Ms|Ms]; [congruence|]. apply part_in in Ms as (_ & _ & S).
      repeat split; intros S'; lia.
    + assert (S : Z.sgn (w pivot e) = 1).
      { destruct (sgn_cases (w pivot e)) as [S|[S|S]]; [contradiction| |assumption].
        exfalso. apply mem_false in Ms. apply Ms. unfold same. right. apply part_in. auto. }
      assert (Ia : In e (concat ca)) by (apply Hca; auto).
      pose proof (bid_from_bound (0 + Z.of_nat (length cb) + 1) ca e ltac:(lia) Ia) as B.
      repeat split; intros S'; lia.
Qed.
