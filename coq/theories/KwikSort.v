(** Model of corankco/algorithms/kwiksort/{kwiksortabs,kwiksortrandom}.py.
    The random pivot choices are an input: [script] gives, for each call of [choice], an index
    (taken modulo the length of the list it chooses from). *)
From Corankco Require Import Prelude Scheme Rank KemenySpec.
Local Open Scope Z_scope.

Definition ind (b : bool) : Z := if b then 1 else 0.
Definition count2 (P : Z -> Z -> bool) (pp po : list Z) : Z :=
  zsum (map (fun x => ind (P (fst x) (snd x))) (combine pp po)).

(** [_where_should_it_be]: -1 = other before pivot, 0 = tied, 1 = after *)
Definition where_should (s : scheme) (pp po : list Z) : Z :=
  let both_non := count2 (fun p o => p + o =? -2) pp po in
  let same := count2 (fun p o => p =? o) pp po in
  let pivot_missing := count2 (fun p _ => p =? -1) pp po in
  let other_missing := count2 (fun _ o => o =? -1) pp po in
  let other_bef := count2 (fun p o => o <? p) pp po in
  let m := Z.of_nat (length pp) in
  let c0 := other_bef - other_missing + both_non in
  let c1 := m - other_bef - same - pivot_missing + both_non in
  let c2 := same - both_non in
  let c3 := pivot_missing - both_non in
  let c4 := other_missing - both_non in
  let c5 := both_non in
  let cost_before := b0 s * c0 + b1 s * c1 + b2 s * c2 + b3 s * c3 + b4 s * c4 + b5 s * c5 in
  let cost_same := t0 s * c0 + t1 s * c1 + t2 s * c2 + t3 s * c3 + t4 s * c4 + t5 s * c5 in
  let cost_after := b0 s * c1 + b1 s * c0 + b2 s * c2 + b3 s * c4 + b4 s * c3 + b5 s * c5 in
  if cost_same <=? cost_before then (if cost_same <=? cost_after then 0 else 1)
  else if cost_before <=? cost_after then -1 else 1.

Definition row (D : dataset) (x : nat) : list Z := map (fun r => position r x) D.

Section Kwik.
  (** [w pivot other] *)
  Variable w : nat -> nat -> Z.

  Definition part (pivot : nat) (rem : list nat) (k : Z) : list nat :=
    filter (fun e => negb (Nat.eqb e pivot) && (Z.sgn (w pivot e) =? k)) rem.

  (** [if len(l) == 1: consensus.append(l) elif len(l) > 0: recurse] *)
  Definition sub (rec : list nat -> list nat -> option (ranking * list nat)) (script l : list nat)
    : option (ranking * list nat) :=
    match l with
    | [] => Some ([], script)
    | [x] => Some ([[x]], script)
    | _ => rec script l
    end.

  Fixpoint kwik (fuel : nat) (script : list nat) (rem : list nat) : option (ranking * list nat) :=
    match fuel with
    | O => None
    | S f =>
        match rem with
        | [] => None   (* choice([]) raises IndexError; never reached from a non-empty universe *)
        | _ =>
            let pivot := nth (Nat.modulo (hd 0%nat script) (length rem)) rem 0%nat in
            match sub (kwik f) (tl script) (part pivot rem (-1)) with
            | None => None
            | Some (cb, script2) =>
                match sub (kwik f) script2 (part pivot rem 1) with
                | None => None
                | Some (ca, script3) => Some (cb ++ [pivot :: part pivot rem 0] ++ ca, script3)
                end
            end
        end
    end.
End Kwik.

Definition kwik_w (s : scheme) (D : dataset) (pivot other : nat) : Z :=
  where_should s (row D pivot) (row D other).

(** [U0] is [list(dataset.universe)] as the interpreter iterates it *)
Definition kwiksort (s : scheme) (D : dataset) (U0 : list nat) (script : list nat) : option ranking :=
  match kwik (kwik_w s D) (S (length U0)) script U0 with
  | Some (c, _) => Some c
  | None => None
  end.
