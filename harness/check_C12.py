"""C12 — Borda orders elements by mean positional score, per the documented variants."""
from common import *
import gen
from corankco.dataset import Dataset
from corankco.scoringscheme import ScoringScheme
from corankco.algorithms.borda.borda import BordaCount


def scaled(s, k):
    return [[x * k for x in s[0]], [x * k for x in s[1]]]


def borda_schemes(rng):
    fams = [gen.INDUCED, gen.UNIFYING, gen.INDUCED_HALF, gen.UNIFYING_HALF]
    r = rng.random()
    if r < 0.5:
        return scaled(rng.choice(fams), rng.choice([1, 1, 0.5, 2, 3, 0.25]))
    if r < 0.7:   # near-misses: one entry of B or T changed
        s = [list(v) for v in rng.choice(fams)]
        v, i = rng.choice([(0, 2), (0, 5), (1, 5), (1, 0), (1, 3), (0, 4)])
        s[v][i] = rng.choice([0.0, 0.5, 1.0, 2.0])
        if (v, i) == (1, 0):
            s[1][1] = s[1][0]
        if (v, i) == (1, 3):
            s[1][4] = s[1][3]
        if s[0][3] > s[0][4]:
            s[0][4] = s[0][3]
        return s
    return gen.pick_scheme(rng)


class Borda(Suite):
    scribbled_rate, bench_rate = 0.1, 0.1
    seasoned_rate = 0.12     # share of the cases run on algorithm objects that have served before (algos.seasoned)
    name = "borda"
    imports = ["Scheme", "Rank", "Borda", "Judge.JC12"]
    judge = "judge_borda"
    show = "show_borda"
    ctype = "bool * scheme * dataset * result algo_err ranking"

    def gen(self, tier, rng):
        cases = []
        prs = gen.all_partial_rankings([0, 1, 2])
        pairs = [(a, b) for a in prs for b in prs if a or b]
        if tier == "quick":
            pairs = rng.sample(pairs, 150)
        for a, b in pairs:
            for s in (gen.UNIFYING, gen.INDUCED):
                cases.append({"bid": rng.random() < 0.5, "s": s, "D": [a, b]})
        # equal means computed over DIFFERENT numbers of rankings (3/5 and 9/15, 5/3 and 25/15 ...): the ties of the
        # definition are exact, a mean formed as total * (1 / count) or with an intermediate rounding splits them.
        # x is an anchor; A and B are tied wherever both appear; B alone appears in t times as many extra rankings
        # with the same proportion of "after x" / "before x"
        for a1 in range(0, 8):
            for a0 in range(0, 8 - a1):
                if a1 + a0 == 0:
                    continue
                for t in ((1, 2, 3) if tier == "quick" else (1, 2, 3, 4, 5)):
                    if (a1 + a0) * (1 + t) > (24 if tier == "quick" else 48):
                        continue
                    D = [[[0], [1, 2]]] * a1 + [[[1, 2], [0]]] * a0 + [[[0], [2]]] * (a1 * t) + [[[2], [0]]] * (a0 * t)
                    rng.shuffle(D)
                    cases.append({"bid": rng.random() < 0.5, "s": rng.choice([gen.INDUCED, gen.INDUCED_HALF]), "D": D})
                    # the same with a longer prefix (scores 2 and 1 instead of 1 and 0)
                    D2 = [[[0], [3], [1, 2]]] * a1 + [[[0], [1, 2], [3]]] * a0 + [[[0], [3], [2]]] * (a1 * t) + [[[0], [2], [3]]] * (a0 * t)
                    rng.shuffle(D2)
                    cases.append({"bid": rng.random() < 0.5, "s": gen.INDUCED, "D": D2})
        n = 700 if tier == "quick" else 8000
        for _ in range(n):
            cases.append({"bid": rng.random() < 0.5, "s": borda_schemes(rng), "D": gen.random_dataset(rng, 8, 6)})
        # datasets with a past (Borda ran, then one or two elements were removed in place): what is judged is Borda on the dataset as it is
        for _ in range(80 if tier == "quick" else 1000):
            D = gen.random_dataset(rng, 7, 5)
            univ = sorted({e for r in D for b in r for e in b})
            if len(univ) < 4:
                continue
            cases.append({"bid": rng.random() < 0.5, "s": rng.choice([gen.UNIFYING, gen.UNIFYING_HALF, gen.INDUCED]), "D": D,
                          "warm": rng.sample(univ, rng.randint(1, 2))})
        return cases

    def run(self, case):
        ds = Dataset.from_raw_list([[set(b) for b in r] for r in case["D"]])
        sc = ScoringScheme(case["s"])
        if case.get("warm"):
            # the dataset has a past: Borda (and whatever it caches on the dataset) ran on it, then elements were removed IN PLACE;
            # the answer judged below is the one on the dataset as it is now (observed after the removal)
            try:
                BordaCount(use_bucket_id=case["bid"]).compute_consensus_rankings(ds, sc, True)
                ds.unified_rankings()
            except Exception:
                pass
            try:
                ds.remove_elements({e for e in ds.universe if e.value in case["warm"]})
            except Exception:
                pass
        out = {"D": gen.observe(ds), "complete": bool(ds.is_complete)}
        try:
            alg = BordaCount(use_bucket_id=case["bid"])
            if case.get("scribbled"):
                from algos import scribble
                scribble(ds)
            if case.get("seasoned"):
                from algos import seasoned
                seasoned(alg, case["D"], case["s"])
            cons = alg.compute_consensus_rankings(ds, sc, True, True) if case.get("bench") else alg.compute_consensus_rankings(ds, sc, True)
            assert len(cons.consensus_rankings) == 1
            out["cons"] = [[e.value for e in b] for b in cons.consensus_rankings[0].buckets]
        except Exception as e:
            out["err"] = exc_class(e)
        return out

    def term(self, case, out):
        if "err" in out:
            res = "(Err " + (out["err"] if out["err"] in ("SchemeNotHandled", "IncompleteIncompatible") else "IncompatibleArguments") + ")"
        else:
            res = f"(Ok {ranking_term(out['cons'])})"
        return f"({cbool(case['bid'])}, {scheme_term(case['s'])}, {dataset_term(out['D'])}, {res})"

    def nontrivial(self, case, out):
        return "cons" in out and sum(len(b) for b in out["cons"]) >= 3

    def stats(self, case, out, acc):
        k = ("complete" if out["complete"] else "incomplete") + (":refused" if "err" in out else ":ok")
        acc[k] = acc.get(k, 0) + 1
        if "cons" in out:
            acc["tied_buckets"] = acc.get("tied_buckets", 0) + int(any(len(b) > 1 for b in out["cons"]))


if __name__ == "__main__":
    main("C12", [Borda()],
         level_note="means are compared exactly in the model (cross-multiplication); the library compares binary64 quotients, which compare "
                    "exactly like the rationals for totals <= 2^20 and counts <= 2^10 (theorem C12_float_means_compare_exactly, "
                    "coq/theories/FloatMeans.v, on Flocq's rounding; it uses the real-number axioms of the standard library)",
         rule="pairs of partial rankings over {0,1,2} under the unifying and induced schemes, both variants; random datasets <= 8 x 6 with "
              "schemes drawn from the four accepted families and their multiples (50%), one-entry near-misses (20%), other valid schemes. "
              "non-trivial = accepted and >= 3 elements")
