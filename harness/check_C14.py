"""C14 — declared scheme applicability is truthful; complete data is never refused."""
from common import *
import gen
from algos import *
from corankco.algorithms.bioconsert.bioconsert import BioConsert
from corankco.algorithms.bioconsert.bioco import BioCo
from corankco.algorithms.borda.borda import BordaCount
from corankco.algorithms.copeland.copeland import CopelandMethod
from corankco.algorithms.pickaperm.pickaperm import PickAPerm
from corankco.algorithms.kwiksort.kwiksortrandom import KwikSortRandom
from corankco.algorithms.parcons.parcons import ParCons
from corankco.algorithms.exact.exactalgorithm import ExactAlgorithm
from corankco.algorithms.exact.exactalgorithmpulp import ExactAlgorithmPulp

LEAVES = [("borda", False), ("borda", True), ("pick",), ("kwik",), ("cop",), ("exact", True), ("exact", False), ("pulp",), ("bioco",)]


def build(t):
    k = t[0]
    if k == "borda":
        return BordaCount(use_bucket_id=t[1])
    if k == "pick":
        return PickAPerm()
    if k == "kwik":
        return KwikSortRandom()
    if k == "cop":
        return CopelandMethod()
    if k == "exact":
        return ExactAlgorithm(optimize=t[1])
    if k == "pulp":
        return ExactAlgorithmPulp()
    if k == "bioco":
        return BioCo()
    if k == "bio":
        return BioConsert(starting_algorithms=[build(x) for x in t[1]])
    if k == "parcons":
        return ParCons(auxiliary_algorithm=build(t[1]), bound_for_exact=t[2])
    raise ValueError(k)


def alg_term(t):
    k = t[0]
    if k == "borda":
        return f"(ABorda {cbool(t[1])})"
    if k == "exact":
        return f"(AExact {cbool(t[1])})"
    if k == "bio":
        return "(ABioConsert " + clist([alg_term(x) for x in t[1]]) + ")"
    if k == "parcons":
        return f"(AParCons {alg_term(t[1])} {nat(t[2])})"
    return {"pick": "APickAPerm", "kwik": "AKwikSort", "cop": "ACopeland", "pulp": "AExactPulp", "bioco": "ABioCo"}[k]


def random_tree(rng, depth):
    if depth == 0 or rng.random() < 0.35:
        return rng.choice(LEAVES)
    if rng.random() < 0.6:
        return ("bio", [random_tree(rng, depth - 1) for _ in range(rng.randint(0, 3))])
    return ("parcons", random_tree(rng, depth - 1), rng.choice([0, 1, 2, 80]))


def schemes(rng):
    fams = [gen.UNIFYING, gen.INDUCED, gen.UNIFYING_HALF, gen.INDUCED_HALF, gen.PSEUDO, gen.EXTENDED]
    out = []
    for f in fams:
        for k in (1, 0.5, 2, 3):
            out.append([[x * k for x in f[0]], [x * k for x in f[1]]])
        for (v, i) in [(0, 2), (0, 5), (1, 5), (1, 0), (1, 3), (0, 4)]:      # near-misses in B and in T
            s = [list(f[0]), list(f[1])]
            s[v][i] = rng.choice([0.0, 0.5, 1.0, 2.0])
            if (v, i) == (1, 0):
                s[1][1] = s[1][0]
            if (v, i) == (1, 3):
                s[1][4] = s[1][3]
            if s[0][3] <= s[0][4]:
                out.append(s)
    out.append(gen.GENERIC)
    return out


REFUSALS = ("ScoringSchemeNotHandledException", "InompleteRankingsIncompatibleWithScoringSchemeException")
COMPLETE = [[[0], [1, 2], [3]], [[3], [2], [1], [0]], [[1], [0, 3], [2]]]
INCOMPLETE = [[[0], [1, 2]], [[3], [2], [0]], [[1], [3]], []]
# other incomplete datasets: one ranking over the whole universe, with ties, which is also the best input ranking; a single-bucket
# ranking; rankings that are heads of one another (the same once unified); one element ranked by one ranking only; a duplicated ranking
INCOMPLETE_MORE = [[[[0, 1], [2], [3]], [[0], [1]], [[0, 1], [2]]],
                   [[[0, 1, 2]], [[0], [3]], [[1], [2], [0]]],
                   [[[2], [0, 1]], [[2], [0, 1], [3]], [[2]]],
                   [[[0], [1], [2]], [[1], [0], [2]], [[2], [1], [0], [3]]],
                   [[[3], [1, 2], [0]], [[3], [1, 2], [0]], [[1], [3]]],
                   [[[0], [1]], [[2], [1]], [[3], [0]]]]          # top-2 lists: equal sizes, different elements


# datasets that BECOME complete: built incomplete (element 4 in one ranking only, possibly an empty ranking), then given a past
# (views read, algorithms run) and filtered in place - it is then exactly COMPLETE
COMPLETE_BY_HISTORY = [([[[0], [1, 2], [3], [4]], [[3], [2], [1], [0]], [[1], [0, 3], [2]]], {"remove": [4], "rate": None, "remove_empty": False}),
                       ([[[0], [1, 2], [3], [4]], [[3], [2], [1], [0]], [], [[1], [0, 3], [2]]], {"remove": [4], "rate": None, "remove_empty": True}),
                       ([[[0], [1, 2], [3], [4]], [[3], [2], [1], [0]], [[1], [0, 3], [2]]], {"remove": [], "rate": 0.5, "remove_empty": False}),
                       # complete, fresh, but with hundreds of rankings (counts beyond the small integers the interpreter shares)
                       ([[[0], [1, 2], [3]], [[3], [2], [1], [0]], [[1], [0, 3], [2]]] * 100, None)]


def outcome(alg, D, s, past=None):
    import random
    random.seed(5)
    ds, sc = mk(D, s)
    if past is not None:
        give_a_past(ds, past, sc)
        random.seed(5)
    try:
        cons = alg.compute_consensus_rankings(ds, sc, True)
        # what came back, as it is: whether it is a well-formed consensus of the universe is decided by the Coq judge (code_of)
        return {"U": [e.value for e in ds.universe], "cons": [[[e.value for e in b] for b in r.buckets] for r in cons.consensus_rankings]}
    except Exception as e:
        return 1 if type(e).__name__ in REFUSALS else 2


def outcome_term(o):
    if o == 1:
        return "ORefused"
    if o == 2:
        return "ORaised"
    return f"(OReturned {natlist(o['U'])} {clist([ranking_term(r) for r in o['cons']])})"


def outcome_key(o):
    return o if isinstance(o, int) else 0


class Applic(Suite):
    name = "applicability"
    imports = ["Scheme", "Applicability", "Judge.JC14"]
    judge = "judge_applic_obs"

    def gen(self, tier, rng):
        sch = schemes(rng)
        trees = list(LEAVES) + [("bio", []), ("bio", [("borda", False), ("pick",)]), ("bio", [("cop",), ("kwik",)]),
                                ("parcons", ("borda", False), 0), ("parcons", ("pick",), 1), ("parcons", ("bio", [("borda", True)]), 0),
                                ("bio", [("parcons", ("borda", False), 0)]), ("bio", [("bioco",), ("bio", [("pick",)])])]
        for _ in range(12 if tier == "quick" else 80):
            trees.append(random_tree(rng, 2))
        # every configuration meets every preset family and two of its multiples (the schemes an algorithm may
        # declare relevant); the near-misses and the remaining multiples are sampled in the quick tier
        fams = [gen.UNIFYING, gen.INDUCED, gen.UNIFYING_HALF, gen.INDUCED_HALF, gen.PSEUDO, gen.EXTENDED]
        core = [[[x * k for x in f[0]], [x * k for x in f[1]]] for f in fams for k in (1, 2, 0.5)]
        cases = []
        for t in trees:
            chosen = sch if tier == "thorough" else core + [x for x in rng.sample(sch, 14) if x not in core]
            for s in chosen:
                cases.append({"alg": t, "s": s})
            for k in range(len(INCOMPLETE_MORE)):      # the other incomplete datasets: under a scheme every algorithm accepts, and another one
                cases.append({"alg": t, "s": rng.choice(core[:3]), "inc": 1 + k})
                cases.append({"alg": t, "s": rng.choice(core[3:]), "inc": 1 + k})
            for k, s in enumerate(core[::3] + [gen.GENERIC]):         # complete data that has a past (became complete by an in-place removal)
                cases.append({"alg": t, "s": s, "hist": 1 + k % 3})
            if t[0] not in ("exact", "parcons") or tier == "thorough":      # ... or that is simply large (300 rankings)
                cases.append({"alg": t, "s": rng.choice(core + [gen.GENERIC]), "hist": 4})
        return cases

    def run(self, case):
        alg = build(case["alg"])
        sc = ScoringScheme(case["s"])
        try:
            p = alg.is_scoring_scheme_relevant_when_incomplete_rankings(sc)
            pred = 1 if p is True else 0 if p is False else 2
        except Exception:
            pred = 2
        oc = outcome(build(case["alg"]), COMPLETE_BY_HISTORY[case["hist"] - 1][0], case["s"], COMPLETE_BY_HISTORY[case["hist"] - 1][1]) if case.get("hist") else \
            outcome(build(case["alg"]), COMPLETE, case["s"])
        inc = INCOMPLETE if not case.get("inc") else INCOMPLETE_MORE[case["inc"] - 1]
        return {"pred": pred, "oc": oc, "oi": outcome(build(case["alg"]), inc, case["s"])}

    def term(self, case, out):
        return f"({alg_term(case['alg'])}, {scheme_term(case['s'])}, {z(out['pred'])}, {outcome_term(out['oc'])}, {outcome_term(out['oi'])})"

    def known(self, case, out):
        return "F5"

    def stats(self, case, out, acc):
        k = f"pred={out['pred']},complete={outcome_key(out['oc'])},incomplete={outcome_key(out['oi'])}"
        acc[k] = acc.get(k, 0) + 1


if __name__ == "__main__":
    main("C14", [Applic()],
         level_note="the outcome of ParCons on incomplete data when its auxiliary algorithm is not relevant depends on the component sizes: the "
                    "model leaves it open (None) and only the property's implication is judged",
         rule="configurations: the 9 leaves, BioConsert with 0-3 starters, ParCons with auxiliaries and bounds 0/1/2/80, nested to depth 2 (fixed "
              "list + random trees); schemes: the 6 preset families x multipliers {1, 1/2, 2, 3} and near-misses differing in one entry of B or of "
              "T, plus a generic scheme; each judged on one complete and one incomplete dataset (4 elements, one empty ranking)")
