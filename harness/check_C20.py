"""C20 — random dataset generators deliver valid datasets of the requested shape."""
import itertools
import numpy as np
from common import *
import corankco.ranking as rk
from corankco.ranking import Ranking
from corankco.dataset import Dataset, EmptyDatasetException

MOVES = {1: "_Ranking__add_left", 2: "_Ranking__add_right", 3: "_Ranking__change_left", 4: "_Ranking__change_right",
         5: "_Ranking__remove_element", 6: "_Ranking__put_element_first"}


def dense_vectors(n):
    """all vectors of length n over {-1,0,..} whose non-negative values are exactly 0..max"""
    out = []
    for v in itertools.product(range(-1, n), repeat=n):
        pos = sorted(set(x for x in v if x >= 0))
        if pos == list(range(len(pos))):
            out.append(list(v))
    return out


class Moves(Suite):
    name = "moves"
    imports = ["Rank", "Markov", "Judge.JC20"]
    judge = "judge_move"
    show = "show_move"
    exhaustive = True

    def gen(self, tier, rng):
        cases = []
        for n in range(1, 5 if tier == "quick" else 6):
            for v in dense_vectors(n):
                for e in range(n):
                    for mv in range(1, 7):
                        if (mv == 6) != (v[e] == -1):
                            continue  # the code only calls put_first on absent and the other moves on present elements
                        cases.append({"mv": mv, "v": v, "e": e})
        return cases

    def run(self, case):
        arr = np.array(case["v"], dtype=int)
        getattr(Ranking, MOVES[case["mv"]])(arr, case["e"])
        return [int(x) for x in arr]

    def term(self, case, out):
        return f"({z(case['mv'])}, {zlist(case['v'])}, {nat(case['e'])}, {zlist(out)})"

    def nontrivial(self, case, out):
        return out != case["v"]

    def stats(self, case, out, acc):
        k = MOVES[case["mv"]][10:] + (":changed" if out != case["v"] else ":noop")
        acc[k] = acc.get(k, 0) + 1


class Script:
    def __init__(self, values):
        self.values = list(values)
        self.i = 0
        self.calls = []

    def randint(self, lo, hi):
        v = self.values[self.i]
        self.i += 1
        self.calls.append((lo, hi))
        assert lo <= v <= hi, (lo, v, hi)
        return v


class Walks(Suite):
    name = "walks"
    imports = ["Rank", "Markov", "Judge.JC20"]
    judge = "judge_walk"
    show = "show_walk"
    ctype = "nat * bool * list (nat * Z) * option ranking"

    def gen(self, tier, rng):
        cases = []
        reps = 6 if tier == "quick" else 60
        for n in range(1, 7):
            for steps in (0, 1, 2, 5, 12, 30, 60):
                for complete in (True, False):
                    for _ in range(reps):
                        hi = 4 if complete else 5
                        # bias towards removals in incomplete mode so that empty rankings occur
                        script = []
                        for _ in range(steps):
                            e = rng.randrange(n)
                            a = rng.randint(1, hi) if (complete or rng.random() < 0.6) else 5
                            script.append([e, a])
                        cases.append({"n": n, "complete": complete, "script": script})
        # long removal-heavy walks on tiny universes: states with a single ranked element, re-insertions, gaps
        for n in (2, 3, 4):
            for steps in (25, 60, 120):
                for _ in range(reps * 4):
                    script = []
                    for _ in range(steps):
                        e = rng.randrange(n)
                        a = 5 if rng.random() < 0.45 else rng.randint(1, 4)
                        script.append([e, a])
                    cases.append({"n": n, "complete": False, "script": script})
        return cases

    def run(self, case):
        flat = [x for ea in case["script"] for x in ea]
        sc = Script(flat)
        old = rk.randint
        rk.randint = sc.randint
        try:
            rs = Ranking.generate_rankings(case["n"], 1, len(case["script"]), case["complete"])
        finally:
            rk.randint = old
        assert sc.i == len(flat)
        if not rs:
            return None
        assert len(rs) == 1
        r = rs[0]
        # views must agree with the buckets (C16 is the owner of that property; cheap sanity here)
        return [[e.value for e in b] for b in r.buckets]

    def term(self, case, out):
        script = clist([f"({nat(e)}, {z(a)})" for e, a in case["script"]])
        o = "None" if out is None else f"(Some {ranking_term(out)})"
        return f"({nat(case['n'])}, {cbool(case['complete'])}, {script}, {o})"

    def nontrivial(self, case, out):
        return len(case["script"]) >= 2

    def stats(self, case, out, acc):
        k = ("complete" if case["complete"] else "incomplete") + (":empty" if out is None else ":ok")
        acc[k] = acc.get(k, 0) + 1
        if out is not None:
            acc["with_ties"] = acc.get("with_ties", 0) + int(any(len(b) > 1 for b in out))
            acc["partial"] = acc.get("partial", 0) + int(sum(len(b) for b in out) < case["n"])


class Reach(Walks):
    """Systematic exploration of the implementation: breadth-first search over the states (vector, missing set)
    that the library's own step functions reach from the initial ranking, under every scripted choice
    (element, alea). One walk case per distinct reached state (its shortest script), run through
    generate_rankings and judged like any walk: when a change to a move breaks the invariant only after a
    long specific sequence, this is the suite that finds the sequence."""
    name = "reach"

    def gen(self, tier, rng):
        cases = []
        cap = 600 if tier == "quick" else 6000
        for complete in (False, True):
            for n in range(1, 5 if tier == "quick" else 6):
                step = getattr(Ranking, "_Ranking__step_element_complete" if complete else "_Ranking__step_element_incomplete")
                start = (tuple(range(n)), frozenset())
                seen = {start: []}
                frontier = [start]
                while frontier and len(seen) < cap:
                    nxt = []
                    for st in frontier:
                        for e in range(n):
                            for a in range(1, 5 if complete else 6):
                                arr = np.array(st[0], dtype=int)
                                miss = set(st[1])
                                old = rk.randint
                                rk.randint = lambda lo, hi, a=a: a
                                try:
                                    try:
                                        if complete:
                                            step(arr, e)
                                        else:
                                            step(arr, e, miss)
                                    except Exception:
                                        pass  # the walk case itself will show the exception
                                finally:
                                    rk.randint = old
                                ns = (tuple(int(x) for x in arr), frozenset(miss))
                                if ns not in seen and max(ns[0]) <= 2 * n + 2:
                                    seen[ns] = seen[st] + [[e, a]]
                                    nxt.append(ns)
                    frontier = nxt
                for st, script in seen.items():
                    cases.append({"n": n, "complete": complete, "script": script})
        return cases


class Wrappers(Suite):
    """Dataset-level wrappers with the library's own random source (fixed seed): shape, flags, failure mode.
    Judged in Coq by the same well-formedness predicate."""
    name = "wrappers"
    imports = ["Rank", "Markov", "Judge.JC20"]
    judge = "judge_wrapper"

    def gen(self, tier, rng):
        cases = []
        reps = 3 if tier == "quick" else 30
        for n in range(1, 7):
            for m in range(1, 4):
                for steps in (0, 3, 20, 80):
                    for mode in ("complete", "incomplete", "uniform"):
                        for _ in range(reps):
                            cases.append({"n": n, "m": m, "steps": steps, "mode": mode, "seed": rng.randrange(10 ** 9)})
        # few elements, many rankings, incomplete: some ranking loses every element (and is dropped) BEFORE another one is generated -
        # state shared between the rankings of one call would show in the next one
        for n in (2, 3, 4):
            for m in (4, 6, 8):
                for steps in (15, 40):
                    for _ in range(10 if tier == "quick" else 60):
                        cases.append({"n": n, "m": m, "steps": steps, "mode": "incomplete", "seed": rng.randrange(10 ** 9)})
        return cases

    def run(self, case):
        import random
        random.seed(case["seed"])
        try:
            if case["mode"] == "uniform":
                ds = Dataset.get_uniform_permutation_dataset(case["n"], case["m"])
            else:
                ds = Dataset.get_random_dataset_markov(case["n"], case["m"], case["steps"], case["mode"] == "complete")
        except Exception as e:
            return {"err": exc_class(e)}
        return {"rankings": [[[e.value for e in b] for b in r.buckets] for r in ds.rankings],
                "complete_flag": bool(ds.is_complete), "no_ties_flag": bool(ds.without_ties), "nb_elements": ds.nb_elements}

    def term(self, case, out):
        if "err" in out:
            return f"({nat(case['n'])}, {nat(case['m'])}, {z({'complete': 0, 'incomplete': 1, 'uniform': 2}[case['mode']])}, None, {cbool(out['err'] == 'EmptyDataset')}, false, false, 0%nat)"
        return (f"({nat(case['n'])}, {nat(case['m'])}, {z({'complete': 0, 'incomplete': 1, 'uniform': 2}[case['mode']])}, "
                f"(Some {dataset_term(out['rankings'])}), false, {cbool(out['complete_flag'])}, {cbool(out['no_ties_flag'])}, {nat(out['nb_elements'])})")

    def stats(self, case, out, acc):
        k = case["mode"] + (":" + out["err"] if "err" in out else ":ok")
        acc[k] = acc.get(k, 0) + 1


class Big(Suite):
    """universes of tens of thousands of elements (complete mode and uniform permutations): element ids beyond 2^15; the delivered
    rankings are handed to Coq with binary integers and checked to be partitions of the requested universe into non-empty buckets"""
    name = "big"
    imports = ["Rank", "Markov", "Judge.JC20"]
    judge = "judge_big"
    ctype = "Z * Z * nat * list (list bitem)"

    def gen(self, tier, rng):
        cases = [{"n": 33000, "m": 1, "steps": 0, "mode": "complete", "seed": 2}, {"n": 33000, "m": 2, "steps": 20, "mode": "complete", "seed": 1},
                 {"n": 33000, "m": 1, "steps": 3, "mode": "complete", "seed": 6}]
        if tier == "thorough":
            cases += [{"n": 40000, "m": 1, "steps": 0, "mode": "uniform", "seed": 3}, {"n": 70000, "m": 1, "steps": 50, "mode": "complete", "seed": 4}, {"n": 33000, "m": 3, "steps": 200, "mode": "complete", "seed": 5}]
        return cases

    def run(self, case):
        import random
        random.seed(case["seed"])
        np.random.seed(case["seed"])
        if case["mode"] == "uniform":
            ds = Dataset.get_uniform_permutation_dataset(case["n"], case["m"])
        else:
            ds = Dataset.get_random_dataset_markov(case["n"], case["m"], case["steps"], True)
        return {"rankings": [[[e.value for e in b] for b in r.buckets] for r in ds.rankings], "complete_flag": bool(ds.is_complete),
                "nb_elements": ds.nb_elements}

    def term(self, case, out):
        lo = 1 if case["mode"] == "uniform" else 0
        def compress(r):
            items, i = [], 0
            while i < len(r):
                j = i
                while j + 1 < len(r) and len(r[j]) == 1 and len(r[j + 1]) == 1 and r[j + 1][0] == r[j][0] + 1:
                    j += 1
                if j - i + 1 >= 8:
                    items.append(f"(Run {z(r[i][0])} {z(j - i + 1)})")
                    i = j + 1
                elif len(r[i]) == 1:
                    k = i
                    while k < len(r) and len(r[k]) == 1 and k - i < 50000:
                        k += 1
                    items.append("(Singles " + clist([z(r[q][0]) for q in range(i, k)]) + ")")
                    i = k
                else:
                    items.append("(Bucket " + clist([z(e) for e in r[i]]) + ")")
                    i += 1
            return clist(items)
        rks = clist([compress(r) for r in out["rankings"]])
        # the flags of the dataset are folded in: a wrong number of elements or a false completeness flag is encoded as a missing ranking
        m = case["m"] if (out["complete_flag"] and out["nb_elements"] == case["n"]) else case["m"] + 1
        return f"({z(lo)}, {z(case['n'])}, {nat(m)}, {rks})"

    def nontrivial(self, case, out):
        return True

    def stats(self, case, out, acc):
        acc[f"n={case['n']},m={case['m']},steps={case['steps']},{case['mode']}"] = 1


if __name__ == "__main__":
    main("C20", [Moves(), Walks(), Reach(), Wrappers(), Big()], gen_targets=["markov"],
         level_note="invariant proved for every move / every script (unbounded n, steps); randint/shuffle are inputs of the model "
                    "(scripted in the correspondence); n = 0 or m = 0 are outside the property's domain (n=0 makes numpy raise ValueError)",
         rule="moves: every dense vector of length <= 4 (thorough 5) x every element x the moves the code can apply to it (exhaustive); "
              "reach: one shortest scripted walk to EVERY state (vector, missing set) that the library reaches from the start for n <= 4 (thorough 5), both modes; walks: n 1..6 x steps {0..60} x both modes with scripted randint (removal-biased in incomplete mode); wrappers: Dataset-level "
              "generators under the library's own RNG. non-trivial: move changes the vector / script length >= 2")
