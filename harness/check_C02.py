"""C02 — pairwise cost table matches the definition and sums to the Kemeny score."""
import itertools
import numpy as np
from common import *
import gen
from algos import give_a_past, random_past
from corankco.dataset import Dataset
from corankco.ranking import Ranking
from corankco.scoringscheme import ScoringScheme
from corankco.algorithms.pairwisebasedalgorithm import PairwiseBasedAlgorithm
from corankco.kemeny_score_computation import KemenyComputingFactory


def units_matrix(m):
    out = []
    for row in m:
        r = []
        for t in row:
            u = [to_units(x) for x in t]
            if any(v is None for v in u):
                return None
            r.append(u)
        out.append(r)
    return out


def triple_mat_term(M):
    return clist([clist(["(" + ", ".join(z(v) for v in t) + ")" for t in row]) for row in M])


def zmat_term(M):
    return clist([zlist(row) for row in M])


class Table(Suite):
    scaled_rate = 0.1        # the library gets the scheme times a power of two; tables and scores are divided back (exactly) before Coq
    name = "table"
    imports = ["Scheme", "Rank", "Judge.JC02"]
    judge = "judge_table"
    show = "show_table"

    def gen(self, tier, rng):
        cases = []
        # exhaustive: all datasets of <= 2 rankings over <= 3 elements (order types of every pair), fixed schemes
        prs = gen.all_partial_rankings([0, 1, 2])
        schemes = [gen.GENERIC] if tier == "quick" else [gen.GENERIC, gen.UNIFYING, gen.INDUCED, gen.EXTENDED, gen.PSEUDO]
        for s in schemes:
            for r in prs:
                if r:
                    cases.append({"s": s, "D": [r]})
            for r1 in prs:
                for r2 in prs:
                    if r1 or r2:
                        cases.append({"s": s, "D": [r1, r2]})
        n = 400 if tier == "quick" else 5000
        for _ in range(n):
            cases.append({"s": gen.pick_scheme(rng), "D": gen.random_dataset(rng, 8, 6)})
        # datasets with a past: every view read and algorithms run, then elements / empty rankings removed IN PLACE; the table judged is
        # the one handed to the algorithms afterwards, against the dataset as it is then
        for _ in range(60 if tier == "quick" else 800):
            D = gen.random_dataset(rng, 7, 5)
            if rng.random() < 0.4:
                D = D + [[]] * rng.randint(1, 2)
                rng.shuffle(D)
            cases.append({"s": gen.pick_scheme(rng), "D": D, "past": random_past(rng, D)})
        # candidates: random complete rankings over the universe
        for c in cases:
            if rng.random() < 0.25:
                c["neighbours"] = True
            elif rng.random() < 0.2:
                c["derived"] = rng.choice([1, 2])
            univ = sorted({e for r in c["D"] for b in r for e in b})
            if c.get("past"):
                univ = [e for e in univ if e not in c["past"]["remove"]] or univ
            c["cands"] = [gen.random_ranking(rng, univ, 1.0, rng.choice([1.0, 0.6, 0.3])) for _ in range(2)]
        return cases

    def run(self, case):
        ds = Dataset.from_raw_list([[set(b) for b in r] for r in case["D"]])
        sc = ScoringScheme(case["s"])
        kk = 1.0
        if case.get("scale_exp") is not None and not case.get("derived"):
            kk = 2.0 ** case["scale_exp"]
            sc = ScoringScheme([[x * kk for x in case["s"][0]], [x * kk for x in case["s"][1]]])
        if case.get("derived"):
            # the scheme is 2 * (a scheme object that has already been used to build a table), when halving is exact
            half = [[x / 2 for x in case["s"][0]], [x / 2 for x in case["s"][1]]]
            if [[x * 2 for x in half[0]], [x * 2 for x in half[1]]] == sc.penalty_vectors:
                base = ScoringScheme(half)
                PairwiseBasedAlgorithm.pairwise_cost_matrix(ds.get_positions(), base)
                sc = base * 2 if case["derived"] == 1 else 2 * base
                assert sc.penalty_vectors == ScoringScheme(case["s"]).penalty_vectors
        if case.get("past"):
            give_a_past(ds, case["past"], sc)
        P = ds.get_positions()
        B = ds.get_bucket_ids()
        if case.get("neighbours"):
            # the tables of the same matrices under proportional schemes were asked for just before, in the same process (a memo keyed on
            # anything coarser than the penalties themselves is then stale)
            for k in (2.0, 0.5):
                try:
                    s2 = ScoringScheme([[x * k for x in case["s"][0]], [x * k for x in case["s"][1]]])
                    PairwiseBasedAlgorithm.pairwise_cost_matrix(P, s2)
                    PairwiseBasedAlgorithm.pairwise_cost_matrix(B, s2)
                except Exception:
                    pass
        MP = PairwiseBasedAlgorithm.pairwise_cost_matrix(P, sc)
        MB = PairwiseBasedAlgorithm.pairwise_cost_matrix(B, sc)
        k = KemenyComputingFactory(sc)
        cands = case["cands"]
        if case.get("past"):
            # the universe is what the past left: candidates over it (derived from the case alone, so that a replay is identical)
            import random as _random
            r2 = _random.Random(canon_hash(case["D"]))
            univ = sorted(e.value for e in ds.universe)
            cands = [gen.random_ranking(r2, univ, 1.0, r2.choice([1.0, 0.6, 0.3])) for _ in range(2)]
        scores = [to_units(k.get_kemeny_score(Ranking([set(b) for b in c]), ds) / kk) for c in cands]
        return {"cands": cands, "listing": gen.observe(ds), "U": gen.id_order(ds), "P": P.tolist(), "B": B.tolist(),
                "MP": units_matrix((MP / kk).tolist()), "MB": units_matrix((MB / kk).tolist()), "scores": scores}

    def term(self, case, out):
        cands = clist([f"({ranking_term(c)}, {z(sc)})" for c, sc in zip(out["cands"], out["scores"])])
        return (f"(mkC02 {scheme_term(case['s'])} {dataset_term(out['listing'])} {natlist(out['U'])} "
                f"{zmat_term(out['P'])} {zmat_term(out['B'])} {triple_mat_term(out['MP'])} {triple_mat_term(out['MB'])} {cands})")

    def nontrivial(self, case, out):
        return len(out["U"]) >= 2

    def stats(self, case, out, acc):
        n = len(out["U"])
        acc[f"n={n}"] = acc.get(f"n={n}", 0) + 1
        inc = any(-1 in row for row in out["P"])
        acc["after_proportional_schemes"] = acc.get("after_proportional_schemes", 0) + int(bool(case.get("neighbours")))
        acc["incomplete"] = acc.get("incomplete", 0) + int(inc)
        acc["with_ties"] = acc.get("with_ties", 0) + int(any(len(b) > 1 for r in out["listing"] for b in r))
        acc["with_empty_ranking"] = acc.get("with_empty_ranking", 0) + int(any(len(r) == 0 for r in out["listing"]))
        s = case["s"]
        acc["B3,B5,T5 nonzero"] = acc.get("B3,B5,T5 nonzero", 0) + int(s[0][3] > 0 and s[0][5] > 0 and s[1][5] > 0)


if __name__ == "__main__":
    main("C02", [Table()], gen_targets=['step6'],
         level_note="theorems for all schemes (T0=T1, T3=T4 where needed), all datasets, all pairs of ids, all duplicate-free candidates "
                    "over the universe; the numba kernel is tied to the model by comparing whole n x n x 3 tables; unit weights only "
                    "(the library never passes other weights)",
         rule="exhaustive: every dataset of 1-2 rankings among the 26 partial rankings-with-ties of {0,1,2} (all order types of a pair incl. "
              "unranked) under the generic scheme (thorough: +4 presets); random datasets <= 8 elements x <= 6 rankings with schemes from "
              "the valid grid; 2 random complete candidates each. non-trivial = at least 2 elements")
