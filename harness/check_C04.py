"""C04 — the Kemeny score a consensus reports is the true score of each returned ranking."""
from common import *
import gen
from algos import *
from corankco.algorithms.bioconsert.bioconsert import BioConsert
from corankco.algorithms.bioconsert.bioco import BioCo
from corankco.algorithms.borda.borda import BordaCount
from corankco.algorithms.copeland.copeland import CopelandMethod
from corankco.algorithms.pickaperm.pickaperm import PickAPerm
from corankco.algorithms.kwiksort.kwiksortrandom import KwikSortRandom
from corankco.algorithms.parcons.parcons import ParCons
from corankco.algorithms.exact.exactalgorithm import ExactAlgorithm
from corankco.algorithms.exact.exactalgorithmpulp import ExactAlgorithmPulp
from corankco.consensus import ConsensusFeature

# (id, constructor, score is computed lazily by Consensus)
ALGS = [(0, lambda: BordaCount(), True), (1, lambda: BordaCount(use_bucket_id=True), True), (2, lambda: CopelandMethod(), True),
        (3, lambda: KwikSortRandom(), True), (4, lambda: PickAPerm(), False), (5, lambda: BioConsert(), False),
        (6, lambda: BioCo(), False), (7, lambda: BioConsert(starting_algorithms=[CopelandMethod(), PickAPerm()]), False),
        (8, lambda: ParCons(bound_for_exact=80), True), (9, lambda: ParCons(auxiliary_algorithm=KwikSortRandom(), bound_for_exact=1), True),
        (10, lambda: ExactAlgorithm(), False), (11, lambda: ExactAlgorithmPulp(), False), (12, lambda: ExactAlgorithm(optimize=False), False)]


FINE = 2 ** 20   # a finer dyadic grid for penalties such as 0.5 + 2^-17 (scores stay exact in floating point)


def scheme_term_scaled(pen, scale):
    vals = [x * scale for x in pen[0]] + [x * scale for x in pen[1]]
    assert all(float(v).is_integer() for v in vals), pen
    return "(mkS " + " ".join(z(int(v)) for v in vals) + ")"


class Scores(Suite):
    bench_rate = 0.1
    scribbled_rate = 0.1     # share of the cases where the caller scribbled on what the read accessors returned (algos.scribble)
    seasoned_rate = 0.2
    names_rate, past_rate = 0.08, 0.08     # hostile element names / datasets with a past (gen.decorate_cases)
    name = "scores"
    imports = ["Scheme", "Rank", "KemenyImpl", "Judge.JC04"]
    judge = "judge_scores"
    ctype = "scheme * dataset * list sc_run"

    def gen(self, tier, rng):
        cases = [{"s": gen.INDUCED, "D": [[[1]], [[2]]], "one": True}, {"s": gen.GENERIC, "D": [[[5]]], "one": False},
                 {"s": gen.GENERIC, "D": [[[3]], [[2]], [[1], [2]]], "one": False}]
        for _ in range(150 if tier == "quick" else 2500):
            D = gen.random_dataset(rng, 6, 5) if rng.random() < 0.6 else layered_dataset(rng, 6, 5)
            # the unifying family is accepted by every algorithm on incomplete data
            s = rng.choice([gen.UNIFYING, gen.UNIFYING, [[x * 0.5 for x in gen.UNIFYING[0]], [x * 0.5 for x in gen.UNIFYING[1]]],
                            [[x * 3 for x in gen.UNIFYING[0]], [x * 3 for x in gen.UNIFYING[1]]]])
            cases.append({"s": s, "D": D, "one": rng.random() < 0.5})
        for _ in range(60 if tier == "quick" else 800):
            # complete datasets: every algorithm accepts every scheme
            n = rng.randint(1, 6)
            D = [gen.random_ranking(rng, list(range(n)), 1.0, rng.choice([1.0, 0.6, 0.3])) for _ in range(rng.randint(1, 5))]
            cases.append({"s": opt_scheme(rng), "D": D, "one": rng.random() < 0.5})
        # incomplete datasets under ANY valid scheme (the algorithms that refuse are skipped: BioConsert, KwikSort, Copeland, ParCons and
        # the exact algorithms accept them all), half of them "the same once unified": every ranking is a head of one reference ranking,
        # so that unification gives the same ranking everywhere although the dataset is incomplete and the true score is not 0
        for _ in range(60 if tier == "quick" else 800):
            n = rng.randint(2, 6)
            if rng.random() < 0.5:
                ref = gen.random_ranking(rng, list(range(n)), 1.0, rng.choice([1.0, 0.7, 0.4]))
                D = []
                for _ in range(rng.randint(2, 4)):
                    k = rng.randint(1, len(ref))
                    D.append([list(b) for b in ref[:k]])
                if rng.random() < 0.3:
                    D.append(gen.random_ranking(rng, list(range(n)), 0.7, 0.6))
            else:
                D = [gen.random_ranking(rng, list(range(n)), rng.choice([0.8, 0.6, 0.4]), rng.choice([1.0, 0.7, 0.4])) for _ in range(rng.randint(2, 5))]
            if not any(D):
                D[0] = [[0]]
            cases.append({"s": opt_scheme(rng) if rng.random() < 0.7 else gen.pick_scheme(rng), "D": D, "one": rng.random() < 0.5})
        # penalties on a fine dyadic grid: scores of different rankings may differ by ~1e-5 only
        for _ in range(50 if tier == "quick" else 600):
            eps = rng.choice([2.0 ** -17, 2.0 ** -16, 2.0 ** -18])
            p = rng.choice([0.5, 1.0]) + eps
            s = [[0.0, 1.0, p, 0.0, 1.0, p], [p, p, 0.0, p, p, 0.0]]
            n = rng.randint(2, 5)
            D = [gen.random_ranking(rng, list(range(n)), rng.choice([1.0, 1.0, 0.7]), rng.choice([1.0, 0.7])) for _ in range(rng.randint(2, 5))]
            if not any(D):
                D[0] = [[0]]
            cases.append({"s": s, "D": D, "one": rng.random() < 0.5, "scale": FINE})
        cases.append({"s": [[0.0, 1.0, 0.5 + 2.0 ** -17, 0.0, 1.0, 0.5 + 2.0 ** -17], [0.5 + 2.0 ** -17] * 2 + [0.0] + [0.5 + 2.0 ** -17] * 2 + [0.0]],
                      "D": [[[1], [2]], [[2], [1]]], "one": False, "scale": FINE})
        return cases

    def run(self, case):
        import random
        random.seed(99)
        ds, sc = mk(case["D"], case["s"])
        out = {"D": gen.observe(ds), "runs": []}
        if case.get("seasoned"):
            # other Consensus objects lived before, built directly (no attribute dictionary) and read: whatever they share with later
            # objects (a default dictionary, a class-level store) is then in place
            try:
                from corankco.consensus import Consensus
                first = next((r for r in ds.rankings if len(r) > 0), None)
                if first is not None:
                    other = ScoringScheme([[3 * x for x in case["s"][0]], [3 * x for x in case["s"][1]]])
                    Consensus([first], ds.unified_dataset() if not ds.is_complete else ds, other).kemeny_score
            except Exception:
                pass
        for aid, mkalg, lazy in ALGS:
            try:
                alg = mkalg()
                if case.get("seasoned"):
                    seasoned(alg, case["D"], case["s"])
                cons = alg.compute_consensus_rankings(ds, sc, case["one"], True) if case.get("bench") else alg.compute_consensus_rankings(ds, sc, case["one"])
            except Exception as e:
                if type(e).__name__ in ("IncompatibleArgumentsException", "ScoringSchemeNotHandledException",
                                        "InompleteRankingsIncompatibleWithScoringSchemeException"):
                    continue   # documented refusals (C14 / C10 / C12 own them): no consensus, no score to judge
                out["runs"].append({"id": aid, "err": type(e).__name__ + ": " + str(e)[:80]})
                continue
            was_absent = cons.features.get(ConsensusFeature.KEMENY_SCORE) == -1.0
            v = cons.kemeny_score
            feat = cons.features[ConsensusFeature.KEMENY_SCORE]
            desc_ok = True
            try:
                cons.description()
            except Exception:
                desc_ok = False
            u = None
            scale = case.get("scale", ONE)
            if v is not None and feat == v and desc_ok:
                fv = float(v)
                if abs(fv * scale - round(fv * scale)) < max(1e-6 * scale, 0.5):     # the property's own 1e-6 tolerance (solver objective)
                    u = int(round(fv * scale))
            out["runs"].append({"id": aid, "cons": [lst(r) for r in cons.consensus_rankings], "score": u, "lazy": bool(was_absent),
                                "raw": None if v is None else float(v)})
        return out

    def term(self, case, out):
        runs = []
        for r in out["runs"]:
            if "err" in r:
                runs.append(f"(mkSC {nat(r['id'])} [] None false)")
            else:
                runs.append(f"(mkSC {nat(r['id'])} {clist([ranking_term(c) for c in r['cons']])} {copt(r['score'], z)} {cbool(r['lazy'])})")
        st = scheme_term_scaled(case["s"], case["scale"]) if "scale" in case else scheme_term(case["s"])
        return f"({st}, {dataset_term(out['D'])}, {clist(runs)})"

    def nontrivial(self, case, out):
        return len({e for r in out["D"] for b in r for e in b}) >= 2

    def stats(self, case, out, acc):
        acc["runs"] = acc.get("runs", 0) + len(out["runs"])
        acc["exceptions"] = acc.get("exceptions", 0) + sum(1 for r in out["runs"] if "err" in r)
        acc["lazy_scores"] = acc.get("lazy_scores", 0) + sum(1 for r in out["runs"] if r.get("lazy"))
        acc["several_rankings"] = acc.get("several_rankings", 0) + sum(1 for r in out["runs"] if len(r.get("cons", [])) > 1)
        acc["one=" + str(case["one"])] = acc.get("one=" + str(case["one"]), 0) + 1


if __name__ == "__main__":
    main("C04", [Scores()], gen_targets=["delta", "initscore", "biokernel"],
         level_note="see MANIFEST",
         rule="13 algorithm configurations (Borda x2, Copeland, KwikSort, PickAPerm, BioConsert, BioCo, BioConsert with two starters, ParCons "
              "x2, exact selector x2, free-solver model) on incomplete datasets under the unifying family (accepted by all) and on complete "
              "datasets under arbitrary valid schemes, both values of return_at_most_one_ranking, plus unifying schemes on a 2^-20 dyadic grid (tie penalty 0.5 + 2^-17 etc.: distinct scores only ~1e-5 apart); kemeny_score, features[KEMENY_SCORE] and "
              "description() are read; the score must equal kemeny_spec of EVERY returned ranking. non-trivial = >= 2 elements")
