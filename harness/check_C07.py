"""C07 — the ParFront partition is respected by every optimal consensus; consistent_with."""
import itertools
from common import *
import gen
from algos import *
from corankco.partitioning.ordered_partition import OrderedPartition
from corankco.consensus import Consensus
from corankco.ranking import Ranking
from corankco.element import Element

MAXENUM = {"quick": 5, "thorough": 6}


class ParFront(Suite):
    scaled_rate = 0.15       # share of the cases where the library gets the scheme times a power of two (algos.mk)
    escalate_cap = 300
    name = "parfront"
    imports = ["Scheme", "Rank", "Partition", "Judge.JOpt"]
    judge = "judge_parfront"
    show = "show_parfront"

    def gen(self, tier, rng):
        self.tier = tier
        cases = [{"s": gen.INDUCED, "D": [[[1], [2]], [[3]]]}]          # F7 witness
        # chains that need cascading back to the first group
        for _ in range(40 if tier == "quick" else 400):
            n = rng.randint(3, 5 if tier == "quick" else 6)
            chain = [[i] for i in range(n)]
            D = [chain] * rng.randint(1, 2)
            for _ in range(rng.randint(1, 3)):
                sub = sorted(rng.sample(range(n), rng.randint(1, 2)))
                D = D + [[[e] for e in reversed(sub)] if rng.random() < 0.5 else [sub]]
            cases.append({"s": opt_scheme(rng), "D": D})
        # tie-heavy tiny datasets: pairs of complete rankings with ties (many equal costs => non-robust arcs)
        c3 = list(gen.set_partitions_ordered([0, 1, 2]))
        c4 = list(gen.set_partitions_ordered([0, 1, 2, 3]))
        for a in c3:
            for b in c3:
                cases.append({"s": gen.UNIFYING, "D": [a, b]})
        for _ in range(150 if tier == "quick" else 3000):
            cases.append({"s": rng.choice([gen.UNIFYING, gen.PSEUDO, gen.INDUCED, gen.UNIFYING_HALF]), "D": [rng.choice(c4) for _ in range(rng.randint(2, 3))]})
        # five to seven rankings of two to four elements, balanced votes and ties, under schemes that mix magnitudes: the sums that decide
        # "robust or not" are equal as rationals - and stay equal in floating point only if nothing divides them by the number of rankings
        for _ in range(120 if tier == "quick" else 1500):
            n = rng.randint(2, 4)
            D = [gen.random_ranking(rng, list(range(n)), 1.0, rng.choice([1.0, 0.6, 0.4])) for _ in range(rng.choice([5, 6, 6, 7, 7]))]
            if rng.random() < 0.5:      # balance the first pair
                D[0] = [[0], [1]] + [[e] for e in range(2, n)]
                D[1] = [[1], [0]] + [[e] for e in range(2, n)]
                D[2] = [[0, 1]] + [[e] for e in range(2, n)]
            s = rng.choice([[[0.0, 1.0, 0.5, 0.0, 1.0, 0.0], [1.0, 1.0, 0.0, 0.5, 0.5, 0.0]], [[0.0, 1.0, 0.25, 0.0, 1.0, 0.0], [0.75, 0.75, 0.0, 0.5, 0.5, 0.0]],
                            gen.GENERIC, gen.UNIFYING_HALF, [[0.0, 1.0, 0.75, 0.0, 1.0, 0.75], [0.25, 0.25, 0.0, 0.25, 0.25, 0.0]]])
            cases.append({"s": s, "D": D})
        for _ in range(150 if tier == "quick" else 2000):
            nmax = rng.choice([3, 4, 5, 5]) if tier == "quick" else rng.choice([4, 5, 6, 6])
            cases.append({"s": opt_scheme(rng), "D": layered_dataset(rng, nmax, 4) if rng.random() < 0.7 else gen.random_dataset(rng, nmax, 4)})
        return cases

    def run(self, case):
        ds, sc = mk(case["D"], case["s"])
        return {"D": gen.observe(ds), "U": gen.id_order(ds), "P0": groups(OrderedPartition.parcons_partition(ds, sc)),
                "P": groups(OrderedPartition.parfront_partition(ds, sc))}

    def term(self, case, out):
        enum = len(out["U"]) <= MAXENUM[getattr(self, "tier", "quick")]
        return (f"(mkC07 {scheme_term(case['s'])} {dataset_term(out['D'])} {natlist(out['U'])} {ranking_term(out['P0'])} "
                f"{ranking_term(out['P'])} {cbool(enum)})")

    def nontrivial(self, case, out):
        return len(out["P0"]) >= 2

    def stats(self, case, out, acc):
        acc[f"n={len(out['U'])}"] = acc.get(f"n={len(out['U'])}", 0) + 1
        acc[f"sccs={len(out['P0'])}->groups={len(out['P'])}"] = acc.get(f"sccs={len(out['P0'])}->groups={len(out['P'])}", 0) + 1
        acc["merged_something"] = acc.get("merged_something", 0) + int(len(out["P"]) < len(out["P0"]))


class Consistent(Suite):
    name = "consistent_with"
    imports = ["Scheme", "Rank", "Partition", "Judge.JOpt"]
    judge = "judge_consistent"

    def gen(self, tier, rng):
        cases = []
        # exhaustive: all (partition, ranking) pairs over {0,1,2} plus a foreign element variants
        parts3 = list(gen.set_partitions_ordered([0, 1, 2]))
        for P in parts3:
            for c in parts3:
                cases.append({"P": P, "c": c})
        if tier == "thorough":
            parts4 = list(gen.set_partitions_ordered([0, 1, 2, 3]))
            for P in parts4:
                for c in parts4:
                    cases.append({"P": P, "c": c})
        for _ in range(300 if tier == "quick" else 3000):
            n = rng.randint(1, 6)
            P = gen.random_ranking(rng, list(range(n)), 1.0, rng.choice([1.0, 0.6, 0.3]))
            mode = rng.random()
            if mode < 0.4:   # a consensus that respects P: refine each group
                c = []
                for g in P:
                    c.extend(gen.random_ranking(rng, g, 1.0, rng.choice([1.0, 0.5])))
            elif mode < 0.7:
                c = gen.random_ranking(rng, list(range(n)), 1.0, rng.choice([1.0, 0.6, 0.3]))
            elif mode < 0.85:  # size mismatch / foreign element
                c = gen.random_ranking(rng, list(range(n)) + [n + 5], 1.0, 0.6)
            else:             # missing element
                c = gen.random_ranking(rng, list(range(max(1, n - 1))), 1.0, 0.6)
            cases.append({"P": P, "c": c, "again": rng.random() < 0.35})
        # F8 witnesses: empty group, consensus running out of buckets
        cases += [{"P": [[], [0]], "c": [[0]]}, {"P": [[0], [1]], "c": [[0]], "second": [[0], [1]]}]
        return cases

    def run(self, case):
        part = OrderedPartition([set(Element(x) for x in g) for g in case["P"]])
        rankings = [Ranking([set(b) for b in case["c"]])]
        if "second" in case:
            rankings.append(Ranking([set(b) for b in case["second"]]))
        cons = Consensus(rankings)
        if case.get("again"):
            # the partition object has already answered: once for a consensus that respects it (its own groups as buckets), once for
            # the reverse order - the judged call is the third one on the same object
            groups = [g for g in case["P"] if g]
            for first in (groups, list(reversed(groups))):
                try:
                    with_timeout(lambda: part.consistent_with(Consensus([Ranking([set(g) for g in first])])), 3)
                except Exception:
                    pass

        def f():
            try:
                return 1 if part.consistent_with(cons) else 0
            except Exception:
                return 2
        try:
            v = with_timeout(f, 3)
        except Hang:
            v = 2
        return {"v": v, "nb_cons": cons.nb_elements, "nb_part": part.nb_elements}

    def term(self, case, out):
        return f"({ranking_term(case['P'])}, {ranking_term(case['c'])}, {z(out['nb_cons'])}, {z(out['nb_part'])}, {z(out['v'])})"

    def stats(self, case, out, acc):
        acc[f"out={out['v']}"] = acc.get(f"out={out['v']}", 0) + 1


if __name__ == "__main__":
    main("C07", [ParFront(), Consistent()], gen_targets=['graph', 'step6'],
         level_note="igraph's SCC order is taken as given (the merge loop model is run on the library's own parcons partition); the set of optimal "
                    "consensuses is enumerated through the verified [assigns]/[opt] for universes <= 5 (thorough 6)",
         rule="parfront: the F7 witness, ALL pairs of complete rankings with ties over 3 elements and sampled pairs / triples over 4 (tie-heavy costs), chain datasets with a few contradicting rankings (cascading merges back to the first group), layered and "
              "random datasets; consistent_with: ALL (partition, ranking) pairs over 3 (thorough 4) elements, random pairs (refinements, "
              "unrelated, foreign / missing elements), the F8 witnesses. non-trivial = at least 2 components")
