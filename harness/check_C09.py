"""C09 — BioConsert is never worse than any of its starting points (same suites and judge as C08:
the judge evaluates, for every returned ranking, score <= score of every departure ranking)."""
import os
from common import *
import gen
from algos import *
import check_C08
from check_C04 import FINE, scheme_term_scaled
from corankco.algorithms.bioconsert.bioconsert import BioConsert
from corankco.algorithms.borda.borda import BordaCount
from corankco.algorithms.copeland.copeland import CopelandMethod
from corankco.algorithms.pickaperm.pickaperm import PickAPerm


class Share(Suite):
    scribbled_rate = 0.1     # share of the cases where the caller scribbled on what the read accessors returned (algos.scribble)
    seasoned_rate = 0.12     # share of the cases run on algorithm objects that have served before (algos.seasoned)
    names_rate, past_rate = 0.08, 0.08
    """the statement itself, on penalties of a fine dyadic grid (tie penalty 0.5 + 2^-17 ...): local optima reached from different
    departures then have scores ~1e-5 apart - closer than the tolerance of a careless float comparison. Judged without the model
    of the local search: all returned rankings share one score, at most the score of every departure"""
    name = "share"
    imports = ["Scheme", "Rank", "KemenySpec", "Judge.JC04"]
    judge = "judge_share"
    ctype = "scheme * dataset * list ranking * list ranking"

    def gen(self, tier, rng):
        cases = []
        for _ in range(120 if tier == "quick" else 1500):
            eps = rng.choice([2.0 ** -17, 2.0 ** -16, 2.0 ** -18])
            p = rng.choice([0.5, 1.0]) + eps
            s = [[0.0, 1.0, p, 0.0, 1.0, p], [p, p, 0.0, p, p, 0.0]]
            n = rng.randint(3, 6)
            st = rng.choice(["none", "none", "copeland+pickaperm+borda"])
            # the starters Borda / PickAPerm refuse incomplete data under these schemes (they are not multiples of the unifying one)
            pres = 1.0 if st != "none" else rng.choice([1.0, 1.0, 0.7])
            D = [gen.random_ranking(rng, list(range(n)), pres, rng.choice([1.0, 0.7, 0.5])) for _ in range(rng.randint(2, 6))]
            if not any(D):
                D[0] = [[0]]
            cases.append({"s": s, "D": D, "one": rng.random() < 0.4, "starters": st})
        return cases

    def run(self, case):
        import random
        random.seed(77)
        ds, sc = mk(case["D"], case["s"])
        out = {"D": gen.observe(ds)}
        if case["starters"] == "none":
            alg = BioConsert()
            univ = [gen.back(e.value) for e in ds.universe]
            deps = [lst(r) for r in ds.unified_rankings()] + [[univ]]
        else:
            starts = [CopelandMethod(), PickAPerm(), BordaCount()]
            alg = BioConsert(starting_algorithms=starts)
            deps = [lst(a.compute_consensus_rankings(ds, sc, True).consensus_rankings[0]) for a in starts]
        if case.get("seasoned"):
            seasoned(alg, case["D"], case["s"])
        cons = alg.compute_consensus_rankings(ds, sc, case["one"])
        out["deps"] = deps
        out["cons"] = [lst(r) for r in cons.consensus_rankings]
        return out

    def term(self, case, out):
        return (f"({scheme_term_scaled(case['s'], FINE)}, {dataset_term(out['D'])}, {clist([ranking_term(r) for r in out['deps']])}, "
                f"{clist([ranking_term(r) for r in out['cons']])})")

    def nontrivial(self, case, out):
        return len(out["cons"]) >= 1 and len({e for r in out["D"] for b in r for e in b}) >= 3

    def stats(self, case, out, acc):
        acc["several_returned"] = acc.get("several_returned", 0) + int(len(out["cons"]) > 1)
        acc["starters=" + case["starters"]] = acc.get("starters=" + case["starters"], 0) + 1


if __name__ == "__main__":
    main("C09", [check_C08.Bio(), Share()], gen_targets=["delta", "initscore", "biokernel"],
         level_note="see MANIFEST",
         rule="witnesses of F3/F4, random and layered datasets up to 7 elements with 7 starting configurations (none, BioCo, Borda, Copeland, "
              "PickAPerm, two and three starters) and both values of return_at_most_one_ranking; the departure rankings are recomputed by "
              "the model (id space of the input dataset) and every returned ranking must score at most each of them; all returned rankings "
              "share the reported score; suite share: the same statement read directly (no model of the search) under unifying schemes on a "
              "2^-20 dyadic grid, where distinct local optima are ~1e-5 apart. non-trivial = >= 3 elements")
