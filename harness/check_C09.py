"""C09 — BioConsert is never worse than any of its starting points (same suites and judge as C08:
the judge evaluates, for every returned ranking, score <= score of every departure ranking)."""
import os
from common import *
import check_C08

if __name__ == "__main__":
    main("C09", [check_C08.Bio()], gen_targets=["delta", "initscore", "biokernel"],
         level_note="see MANIFEST",
         rule="witnesses of F3/F4, random and layered datasets up to 7 elements with 7 starting configurations (none, BioCo, Borda, Copeland, "
              "PickAPerm, two and three starters) and both values of return_at_most_one_ranking; the departure rankings are recomputed by "
              "the model (id space of the input dataset) and every returned ranking must score at most each of them; all returned rankings "
              "share the reported score. non-trivial = >= 3 elements")
