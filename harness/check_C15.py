"""C15 — computing a consensus never modifies its inputs; results are repeatable."""
import copy
import json
import random
from common import *
import gen
from snap import *
from algos import *
from check_C03 import named_dataset
from corankco.algorithms.bioconsert.bioconsert import BioConsert
from corankco.algorithms.bioconsert.bioco import BioCo
from corankco.algorithms.borda.borda import BordaCount
from corankco.algorithms.copeland.copeland import CopelandMethod
from corankco.algorithms.pickaperm.pickaperm import PickAPerm
from corankco.algorithms.kwiksort.kwiksortrandom import KwikSortRandom
from corankco.algorithms.parcons.parcons import ParCons
from corankco.algorithms.exact.exactalgorithm import ExactAlgorithm
from corankco.partitioning.ordered_partition import OrderedPartition
from corankco.kemeny_score_computation import KemenyComputingFactory
from corankco.consensus import ConsensusFeature


def canon_cons(cons):
    feats = {}
    for k, v in cons.features.items():
        if k in (ConsensusFeature.COPELAND_SCORES, ConsensusFeature.COPELAND_VICTORIES):
            feats[k.name] = sorted((str(e), [float(x) for x in (val if isinstance(val, list) else [val])]) for e, val in v.items())
        elif k == ConsensusFeature.WEAK_PARTITIONING:
            feats[k.name] = [sorted(map(str, g)) for g in v]
        else:
            feats[k.name] = v if not isinstance(v, float) else round(v, 6)
    return {"rankings": [[sorted(map(str, b)) for b in r.buckets] for r in cons.consensus_rankings], "features": feats}


def run_alg(mk_alg, one):
    def f(ds, sc, pool=None):
        random.seed(31)
        if pool is None:
            alg = mk_alg()
        else:                       # one algorithm object per configuration for the whole history
            if id(f) not in pool:
                pool[id(f)] = mk_alg()
            alg = pool[id(f)]
        cons = alg.compute_consensus_rankings(ds, sc, one)
        out = canon_cons(cons)
        out["score"] = round(float(cons.kemeny_score), 6)
        out["desc_len"] = len(cons.description())
        return out
    return f


OPS = {
    "borda": run_alg(lambda: BordaCount(), True), "borda_bid": run_alg(lambda: BordaCount(use_bucket_id=True), False),
    "copeland": run_alg(lambda: CopelandMethod(), True), "kwiksort": run_alg(lambda: KwikSortRandom(), True),
    "pickaperm": run_alg(lambda: PickAPerm(), False), "bioconsert": run_alg(lambda: BioConsert(), False),
    "bioco": run_alg(lambda: BioCo(), True), "bio_starters": run_alg(lambda: BioConsert(starting_algorithms=[CopelandMethod(), PickAPerm()]), False),
    "parcons": run_alg(lambda: ParCons(bound_for_exact=80), True), "parcons_aux": run_alg(lambda: ParCons(auxiliary_algorithm=BordaCount(), bound_for_exact=0), True),
    "exact": run_alg(lambda: ExactAlgorithm(), True),
    "parcons_partition": lambda ds, sc: [sorted(map(str, g)) for g in OrderedPartition.parcons_partition(ds, sc)],
    "parfront_partition": lambda ds, sc: [sorted(map(str, g)) for g in OrderedPartition.parfront_partition(ds, sc)],
    "unified_rankings": lambda ds, sc: [[sorted(map(str, b)) for b in r.buckets] for r in ds.unified_rankings()],
    "unified_dataset": lambda ds, sc: str(sorted(str(r) for r in ds.unified_dataset().rankings)),
    "matrices": lambda ds, sc: [ds.get_positions().tolist(), ds.get_bucket_ids().tolist()],
    "sub_problem": lambda ds, sc: [[sorted(map(str, b)) for b in r.buckets] for r in ds.sub_problem_from_ids({0}).rankings],
    "description": lambda ds, sc: [ds.description(), str(ds), repr(ds), sc.description(), str(sc), sc.get_nickname()],
    # a candidate that lacks elements of the dataset: a refusal is expected - and the dataset must be what it was
    "kemeny_partial": lambda ds, sc: (lambda r: round(float(KemenyComputingFactory(sc).get_kemeny_score(Ranking([set(b) for b in r.buckets[:1]]), ds)), 6))(
        next(r for r in ds.rankings if len(r.buckets) >= 1)),
    "kemeny_first": lambda ds, sc: round(float(KemenyComputingFactory(sc).get_kemeny_score(ds.unified_rankings()[0], ds)), 6),
    "scheme_ops": lambda ds, sc: [(sc * 2).penalty_vectors, (0.5 * sc).penalty_vectors, sc.is_equivalent_to(sc * 3), sc[0], sc.b_vector, sc.t_vector],
    "eq": lambda ds, sc: [ds == copy.deepcopy(ds), ds.contains_element("zz"), len(list(iter(ds)))],
}
ALG_OPS = {"borda", "borda_bid", "copeland", "kwiksort", "pickaperm", "bioconsert", "bioco", "bio_starters", "parcons", "parcons_aux", "exact"}
NONDETERMINISTIC = set()   # KwikSort is seeded inside run_alg, so every op here is repeatable


def sc_term(sc):
    return scheme_term(sc.penalty_vectors)


class Histories(Suite):
    case_timeout = 40
    name = "histories"
    imports = ["Scheme", "Parser", "DatasetModel", "Judge.JC16", "Judge.JC15"]
    judge = "judge_history2"

    def gen(self, tier, rng):
        cases = []
        for _ in range(90 if tier == "quick" else 1000):
            ops = [rng.choice(list(OPS)) for _ in range(rng.randint(3, 12))]
            D = named_dataset(rng, 5, 4)
            if rng.random() < 0.5:
                # complete datasets without empty rankings: some algorithms take a different path (PickAPerm works on
                # the dataset's own list of rankings)
                univ = sorted({e for r in D for b in r for e in b}, key=str)
                D = [gen.random_ranking(rng, univ, 1.0, rng.choice([1.0, 0.6])) for _ in range(rng.randint(2, 4))]
                if rng.random() < 0.3:
                    # a ranking with empty buckets (accepted and kept as it is by Ranking and Dataset): code that "tidies" the rankings
                    # it is given, in place, shows here
                    r = rng.choice(D)
                    for _ in range(rng.randint(1, 2)):
                        r.insert(rng.randint(0, len(r)), [])
                    ops[rng.randrange(len(ops))] = rng.choice(["bioconsert", "pickaperm", "borda_bid"])
            if rng.random() < 0.3:
                # incomplete, and the elements missing from the first ranking first appear later in DESCENDING order: the ids (order of
                # first appearance) then differ from the order in which a set of small integers is iterated - a copy of the
                # dataset that re-derives its ids from unified rankings would not get the same ones
                n = rng.randint(5, 6)
                names = list(range(1, n + 1))
                rng.shuffle(names)
                head, rest = names[:2], sorted(names[2:], reverse=True)
                D = [[[e] for e in head], [[e] for e in rest] + [[head[1]]], gen.random_ranking(rng, names, 0.7, 0.6)]
                if rng.random() < 0.5:
                    D.append(gen.random_ranking(rng, names, 0.6, 0.6))
                ops[rng.randrange(len(ops))] = rng.choice(["bioconsert", "bioco", "bio_starters"])
                ops.append(rng.choice(["matrices", "bioconsert", "parcons_aux"]))
            s1 = rng.choice([gen.UNIFYING, gen.UNIFYING, gen.UNIFYING_HALF])
            # second phase: a scheme with the same first three penalties in both vectors (equivalent on complete rankings only)
            s2 = rng.choice([[s1[0][:3] + [0.0, 1.0, 0.0], s1[1][:3] + [s1[1][0], s1[1][0], 0.0]],      # pseudo-distance
                             [s1[0][:3] + [0.0, 0.0, 0.0], s1[1][:3] + [0.0, 0.0, 0.0]],               # induced measure
                             [[2 * x for x in s1[0]], [2 * x for x in s1[1]]]])
            cases.append({"D": D, "s": s1, "s2": s2, "ops": ops, "name": rng.choice(["", "my data", "None"])})
        return cases

    def run(self, case):
        ds = Dataset.from_raw_list([[set(b) for b in r] for r in case["D"]], name=case["name"])
        pristine_ds = copy.deepcopy(ds)
        d0 = dsnap(ds)
        pool = {}          # the algorithm objects are shared by the whole history (both phases)
        phases = []
        for svec in (case["s"], case["s2"]):
            sc = ScoringScheme(svec)
            pristine_sc = copy.deepcopy(sc)
            steps = []
            for name in case["ops"]:
                op = OPS[name]
                shared = (lambda: op(ds, sc, pool)) if name in ALG_OPS else (lambda: op(ds, sc))
                try:
                    out = json.dumps(shared(), sort_keys=True, default=str)
                except Exception as e:
                    out = "EXC:" + type(e).__name__
                try:
                    fresh = json.dumps(op(copy.deepcopy(pristine_ds), copy.deepcopy(pristine_sc)), sort_keys=True, default=str)
                except Exception as e:
                    fresh = "EXC:" + type(e).__name__
                try:
                    again = json.dumps(shared(), sort_keys=True, default=str)
                except Exception as e:
                    again = "EXC:" + type(e).__name__
                steps.append({"op": name, "ds": dsnap(ds), "sc": sc.penalty_vectors, "name_same": ds.name == case["name"],
                              "same_as_fresh": out == fresh, "same_twice": out == again, "raised": out.startswith("EXC:")})
            phases.append(steps)
        return {"d0": d0, "steps": phases[0], "steps2": phases[1]}

    def term(self, case, out):
        def hist(steps, svec):
            st = clist([f"(mkH {dsnap_term(s['ds'])} {scheme_term(s['sc'])} {cbool(s['name_same'])} {cbool(s['same_as_fresh'])} {cbool(s['same_twice'])})"
                        for s in steps])
            return f"({dsnap_term(out['d0'])}, {scheme_term(svec)}, {st})"
        return f"({hist(out['steps'], case['s'])}, {hist(out['steps2'], case['s2'])})"

    def nontrivial(self, case, out):
        return len(case["ops"]) >= 3

    def stats(self, case, out, acc):
        for s in out["steps"] + out["steps2"]:
            acc[s["op"]] = acc.get(s["op"], 0) + 1
            if s["raised"]:
                acc["raised:" + s["op"]] = acc.get("raised:" + s["op"], 0) + 1


if __name__ == "__main__":
    main("C15", [Histories()],
         level_note="Python-level aliasing is not modelled: this property is decided by the history correspondence; the snapshot is order-"
                    "sensitive (bucket listing order, dict orders, both matrices, flags, name) and taken through the public accessors",
         rule="histories of 3-12 calls drawn from 21 operations (11 algorithm configurations incl. nested ones, each followed by reading the "
              "score and the description; both partitions; unified rankings / dataset; matrices; projection; descriptions; Kemeny score; scheme "
              "operations; equality) on SHARED dataset and scheme objects over 10 name pools; after every call the full snapshot must equal the "
              "initial one, the output must equal the output on fresh deep copies and the output of calling it again (KwikSort seeded)")
