"""C19 — scoring schemes: validation, scaling, equivalence."""
import itertools
from common import *
from corankco.scoringscheme import ScoringScheme

GRID = [0.0, 0.5, 1.0]


# ---- python value <-> JSON <-> Coq
def py_of(j):
    k, v = next(iter(j.items()))
    if k == "num":
        return v
    if k == "bool":
        return bool(v)
    if k == "other":
        return {"none": None, "str": "1", "dict": {}, "nan": float("nan")}[v]
    if k == "list":
        return [py_of(x) for x in v]
    if k == "tuple":
        return tuple(py_of(x) for x in v)
    raise ValueError(k)


def coq_of(j):
    k, v = next(iter(j.items()))
    if k == "num":
        u = to_units(v)
        assert u is not None
        return f"(PNum {z(u)})"
    if k == "bool":
        return f"(PBool {cbool(v)})"
    if k == "other":
        return "POther"
    if k == "list":
        return "(PList " + clist([coq_of(x) for x in v]) + ")"
    if k == "tuple":
        return "(PTuple " + clist([coq_of(x) for x in v]) + ")"
    raise ValueError(k)


def jnum(x):
    return {"num": x}


def jscheme(b, t):
    return {"list": [{"list": [jnum(x) for x in b]}, {"list": [jnum(x) for x in t]}]}


def res_term(out):
    if "ok" in out:
        return "(Ok " + scheme_term(out["ok"]) + ")"
    return "(Err " + out["err"] + ")"


def run_construct(v):
    try:
        s = ScoringScheme(v)
        pv = s.penalty_vectors
        if not (isinstance(pv, list) and len(pv) == 2 and all(isinstance(x, list) and len(x) == 6 for x in pv)):
            # accepted, but what the object holds is not two vectors of six penalties: no encoding as a scheme of the model - reported
            # as it is (a violation with the input as replay), never passed to Coq
            return {"harness_exception": "AcceptedButMalformed", "trace": "accepted, penalty_vectors = " + repr(pv)[:300]}
        return {"ok": pv}
    except Exception as e:
        k = exc_class(e)
        if k in ("InvalidScheme", "NonRealPositive", "ForbiddenAssociation"):
            return {"err": k}
        if k == "ValueError":
            return {"err": "MulValueError"}
        # any other exception class is not one of the documented refusals
        return {"harness_exception": k, "trace": str(e)[:300]}


def valid_tuple(b, t):
    return b[0] == 0 and b[1] > 0 and b[3] <= b[4] and t[0] == t[1] and t[2] == 0 and t[3] == t[4]


def valid_schemes(rng, n, grid=(0, 0.125, 0.25, 0.5, 1, 1.5, 2, 3)):
    out = []
    while len(out) < n:
        b = [0, rng.choice(grid[1:]), rng.choice(grid), rng.choice(grid), rng.choice(grid), rng.choice(grid)]
        if b[3] > b[4]:
            b[3], b[4] = b[4], b[3]
        t01 = rng.choice(grid)
        t34 = rng.choice(grid)
        t = [t01, t01, 0, t34, t34, rng.choice(grid)]
        out.append([list(map(float, b)), list(map(float, t))])
    return out


PRESETS = lambda: [ScoringScheme.get_pseudodistance_scoring_scheme(), ScoringScheme.get_unifying_scoring_scheme(),
                   ScoringScheme.get_induced_measure_scoring_scheme(), ScoringScheme.get_extended_measure_scoring_scheme(),
                   ScoringScheme.get_pseudodistance_scoring_scheme_p(0.5), ScoringScheme.get_unifying_scoring_scheme_p(0.5),
                   ScoringScheme.get_induced_measure_scoring_scheme_p(0.5),
                   ScoringScheme.get_pseudodistance_scoring_scheme_p(2.5), ScoringScheme.get_unifying_scoring_scheme_p(2.5),
                   ScoringScheme.get_induced_measure_scoring_scheme_p(2.5)]


class Construct(Suite):
    name = "construct"
    imports = ["Scheme", "Judge.JC19"]
    judge = "judge_construct"
    ctype = "pyval * result scheme_err scheme"
    show = "show_construct"

    def gen(self, tier, rng):
        cases = []
        # rule lattice: start from valid tuples over the grid and break rules one at a time / in pairs
        base = [([0, 1, 0.5, 0, 1, 0.5], [0.5, 0.5, 0, 1, 1, 0]), ([0, 0.5, 0, 0.5, 0.5, 1], [0, 0, 0, 0.5, 0.5, 1]),
                ([0, 1, 1, 0, 0, 0], [1, 1, 0, 0, 0, 0])]
        pos = [(v, i) for v in (0, 1) for i in range(6)]
        vals = [0, 0.5, 1, -0.5, -1]
        for b, t in base:
            cases.append(jscheme(b, t))
            for (v1, i1) in pos:
                for x in vals:
                    bt = [list(b), list(t)]
                    bt[v1][i1] = x
                    cases.append(jscheme(*bt))
            pairs = list(itertools.combinations(pos, 2))
            if tier == "quick":
                pairs = rng.sample(pairs, 20)
            for (v1, i1), (v2, i2) in pairs:
                for x in vals[:4]:
                    for y in vals[:4]:
                        bt = [list(b), list(t)]
                        bt[v1][i1] = x
                        bt[v2][i2] = y
                        cases.append(jscheme(*bt))
        # exhaustive small grid on the entries that matter for the relations
        if tier == "thorough":
            for b0, b1, b3, b4, t0, t1, t2, t3, t4 in itertools.product([0, 0.5], [0, 0.5], GRID, GRID, [0, 0.5], [0, 0.5], [0, 0.5], [0, 1], [0, 1]):
                cases.append(jscheme([b0, b1, 0.5, b3, b4, 1], [t0, t1, t2, t3, t4, 0.5]))
        # malformed shapes and types
        ok_b = [jnum(x) for x in (0, 1, 1, 0, 1, 1)]
        ok_t = [jnum(x) for x in (1, 1, 0, 1, 1, 0)]
        odd = [{"other": "none"}, {"other": "str"}, {"other": "dict"}, {"bool": True}, {"bool": False}, jnum(-0.0), jnum(-1),
               {"list": []}, {"tuple": []}, jnum(1)]
        cases += [{"tuple": [{"list": ok_b}, {"list": ok_t}]}, {"list": [{"tuple": ok_b}, {"list": ok_t}]},
                  {"list": [{"list": ok_b}, {"tuple": ok_t}]}, {"list": [{"list": ok_b}]}, {"list": []},
                  {"list": [{"list": ok_b}, {"list": ok_t}, {"list": ok_t}]}, {"other": "none"}, {"other": "str"}, jnum(1),
                  {"list": [{"list": ok_b[:5]}, {"list": ok_t}]}, {"list": [{"list": ok_b}, {"list": ok_t + [jnum(0)]}]},
                  {"list": [{"list": ok_b[:5] + [{"other": "str"}]}, {"list": ok_t[:5]}]},
                  {"list": [jnum(1), {"list": ok_t}]}, {"list": [{"list": ok_b}, {"other": "none"}]},
                  # one vector of the right length, the other one too short / too long / empty (each side)
                  {"list": [{"list": ok_b}, {"list": ok_t[:5]}]}, {"list": [{"list": ok_b}, {"list": ok_t[:3]}]},
                  {"list": [{"list": ok_b}, {"list": []}]}, {"list": [{"list": ok_b}, {"list": ok_t + [jnum(1), jnum(1)]}]},
                  {"list": [{"list": ok_b + [jnum(1)]}, {"list": ok_t}]}, {"list": [{"list": ok_b[:3]}, {"list": ok_t}]},
                  {"list": [{"list": []}, {"list": ok_t}]}, {"list": [{"list": ok_b[:5]}, {"list": ok_t[:5]}]},
                  {"list": [{"list": ok_b + [jnum(0)]}, {"list": ok_t + [jnum(0)]}]}]
        for o in odd:
            for v in (0, 1):
                for i in range(6):
                    bt = [list(ok_b), list(ok_t)]
                    bt[v][i] = o
                    cases.append({"list": [{"list": bt[0]}, {"list": bt[1]}]})
        # random tuples over a larger grid
        n = 300 if tier == "quick" else 3000
        g = [0, 0, 0.125, 0.25, 0.5, 1, 1, 2, 3, -1]
        for _ in range(n):
            if rng.random() < 0.6:
                s = valid_schemes(rng, 1)[0]
                if rng.random() < 0.5:
                    s[rng.randrange(2)][rng.randrange(6)] = rng.choice(g)
                cases.append(jscheme(*s))
            else:
                cases.append(jscheme([rng.choice(g) for _ in range(6)], [rng.choice(g) for _ in range(6)]))
        return cases

    def run(self, case):
        return run_construct(py_of(case))

    def term(self, case, out):
        return f"({coq_of(case)}, {res_term(out)})"

    def nontrivial(self, case, out):
        return True

    def stats(self, case, out, acc):
        k = "ok" if "ok" in out else out["err"]
        acc[k] = acc.get(k, 0) + 1


class Mul(Suite):
    name = "mul"
    imports = ["Scheme", "Judge.JC19"]
    judge = "judge_mul"
    ctype = "scheme * pyval * result scheme_err scheme"
    show = "show_mul"

    def gen(self, tier, rng):
        ks = [jnum(0.5), jnum(2), jnum(3), jnum(1.0), jnum(0), jnum(-1), jnum(-0.5), jnum(1.5), jnum(0.25), {"other": "str"},
              {"other": "none"}, {"bool": True}, {"bool": False}, {"list": []}]
        schemes = [s.penalty_vectors for s in PRESETS()] + valid_schemes(rng, 40 if tier == "quick" else 400, grid=(0, 0.5, 1, 2, 3, 4))
        return [{"s": s, "k": k} for s in schemes for k in ks]

    def run(self, case):
        s = ScoringScheme(case["s"])
        before = [list(v) for v in s.penalty_vectors]
        k = py_of(case["k"])
        try:
            r = s * k
            out = {"ok": r.penalty_vectors}
            try:
                r2 = k * s
                if r2.penalty_vectors != r.penalty_vectors:
                    out = {"err": "Other:rmul-differs"}
            except Exception as e:
                out = {"err": "Other:rmul-" + exc_class(e)}
            # the augmented assignment on a second name for the same object: it must give the same NEW scheme and leave the object alone;
            # a Kemeny score computed with the original before and after must not move
            from corankco.dataset import Dataset as _D
            from corankco.ranking import Ranking as _R
            from corankco.kemeny_score_computation import KemenyComputingFactory as _K
            _ds, _c = _D.from_raw_list([[{1}, {2, 3}], [{3}, {1}]]), _R([{2}, {1, 3}])
            v0 = _K(s).get_kemeny_score(_c, _ds)
            try:
                t = s
                t *= k
                if t is s or t.penalty_vectors != r.penalty_vectors:
                    out = {"err": "Other:imul-differs"}
            except Exception as e:
                out = {"err": "Other:imul-" + exc_class(e)}
            if _K(s).get_kemeny_score(_c, _ds) != v0:
                out = {"err": "Other:score-of-original-moved"}
            if "ok" in out and isinstance(k, (int, float)) and not isinstance(k, bool):
                # ... and the product scales the score (exact on the grid)
                if _K(r).get_kemeny_score(_c, _ds) != v0 * k:
                    out = {"err": "Other:score-not-scaled"}
                # ... also for a product formed AFTER the operand has been used to compute scores
                if _K(s * k).get_kemeny_score(_c, _ds) != v0 * k or _K(k * s).get_kemeny_score(_c, _ds) != v0 * k:
                    out = {"err": "Other:score-of-late-product-not-scaled"}
        except Exception as e:
            kk = exc_class(e)
            out = {"err": "MulValueError" if kk == "ValueError" else kk}
        if s.penalty_vectors != before:
            out = {"err": "Other:original-modified"}
        if str(out.get("err", "")).startswith("Other:"):
            # an observation the model has no value for (the operators disagree with each other, the operand changed, a score did not
            # scale): reported as it is, with the input as replay
            return {"harness_exception": out["err"][6:], "trace": f"scheme {case['s']} multiplied by {case['k']}: {out['err'][6:]}"}
        return out

    def term(self, case, out):
        return f"({scheme_term(case['s'])}, {coq_of(case['k'])}, {res_term(out)})"

    def stats(self, case, out, acc):
        k = "ok" if "ok" in out else out["err"]
        acc[k] = acc.get(k, 0) + 1


class Equiv(Suite):
    name = "equiv"
    imports = ["Scheme", "Judge.JC19"]
    judge = "judge_equiv"
    show = "show_equiv"

    def gen(self, tier, rng):
        n = 30 if tier == "quick" else 120
        base = [s.penalty_vectors for s in PRESETS()] + valid_schemes(rng, n, grid=(0, 0.5, 1, 2))
        schemes = list(base)
        # multiples, and near-misses differing in one entry of B or of T
        for s in base:
            for k in (0.5, 2, 3):
                schemes.append([[x * k for x in s[0]], [x * k for x in s[1]]])
            for _ in range(2):
                m = [list(s[0]), list(s[1])]
                v, i = rng.choice([(0, 2), (0, 5), (1, 5), (1, 0), (1, 3), (0, 3), (0, 4)])
                m[v][i] = rng.choice([0.0, 0.5, 1.0, 2.0, 3.0])
                if v == 1 and i == 0:
                    m[1][1] = m[1][0]
                if v == 1 and i == 3:
                    m[1][4] = m[1][3]
                if m[0][3] <= m[0][4]:
                    schemes.append(m)
        uniq = []
        seen = set()
        for s in schemes:
            key = json.dumps(s)
            if key not in seen:
                seen.add(key)
                uniq.append(s)
        pairs = [(a, b) for a in uniq for b in uniq]
        cap = 6000 if tier == "quick" else 60000
        if len(pairs) > cap:
            # keep all pairs involving presets and their multiples, sample the rest
            keep = [p for p in pairs if p[0] in base[:10] or p[1] in base[:10]]
            rest = [p for p in pairs if not (p[0] in base[:10] or p[1] in base[:10])]
            pairs = keep + rng.sample(rest, max(0, cap - len(keep)))
        cases = [{"a": a, "b": b} for a, b in pairs]
        # schemes of very different magnitudes (one of them scaled by 2^-30 or 2^20) and near-multiples (one entry off by a relative
        # 2^-20): exactly representable, so that "proportional" is decided exactly by the code's float quotients - and wrongly by any
        # tolerance.  The pair is handed to Coq on a common exact scale (equivalence and nickname do not depend on a common factor).
        presets = [s.penalty_vectors for s in PRESETS()]
        for _ in range(300 if tier == "quick" else 3000):
            s1 = rng.choice(presets) if rng.random() < 0.5 else rng.choice(base)
            kind = rng.choice(["tiny_same", "tiny_other", "near", "near", "huge_other"])
            if kind == "near":
                k = rng.choice([1.0, 2.0, 0.5, 3.0])
                s2 = [[x * k for x in s1[0]], [x * k for x in s1[1]]]
                v, i = rng.choice([(0, 1), (0, 2), (0, 4), (0, 5), (1, 5), (1, 0), (1, 3)])
                if s2[v][i] == 0:
                    continue
                s2[v][i] = s2[v][i] * (1 + 2.0 ** -20)
                if (v, i) == (1, 0):
                    s2[1][1] = s2[1][0]
                if (v, i) == (1, 3):
                    s2[1][4] = s2[1][3]
                if not s2[0][3] <= s2[0][4]:
                    continue
                a, b = (s1, s2) if rng.random() < 0.5 else (s2, s1)
            else:
                t = 2.0 ** 20 if kind == "huge_other" else 2.0 ** -30
                if kind == "tiny_same":
                    s2 = s1
                else:      # same zero pattern, not proportional
                    s2 = [list(s1[0]), list(s1[1])]
                    nz = [(v, i) for v in (0, 1) for i in range(6) if s1[v][i] != 0 and (v, i) not in ((1, 1), (1, 4), (0, 3))]
                    if len(nz) < 2:
                        continue
                    v, i = rng.choice(nz)
                    s2[v][i] = s2[v][i] * 2
                    if (v, i) == (1, 0):
                        s2[1][1] = s2[1][0]
                    if (v, i) == (1, 3):
                        s2[1][4] = s2[1][3]
                    if not s2[0][3] <= s2[0][4]:
                        continue
                tiny = [[x * t for x in s2[0]], [x * t for x in s2[1]]]
                a, b = (tiny, s1) if rng.random() < 0.5 else (s1, tiny)
            cases.append({"a": a, "b": b, "exact": True, "kind": kind})
        return cases

    def run(self, case):
        a = ScoringScheme(case["a"])
        b = ScoringScheme(case["b"])
        nk = a.get_nickname()
        return {"e6": bool(a.is_equivalent_to(b)), "e3": bool(a.is_equivalent_to_on_complete_rankings_only(b)),
                "nick": nk if nk in ("UKSP", "GPDP", "IGKS", "EKS") else "NoNick"}

    def term(self, case, out):
        if case.get("exact"):
            from fractions import Fraction
            from math import lcm
            fr = [Fraction(x) for s in (case["a"], case["b"]) for v in s for x in v]
            den = lcm(*[f.denominator for f in fr])
            ints = [int(f * den) for f in fr]
            ta = "(mkS " + " ".join(z(v) for v in ints[:12]) + ")"
            tb = "(mkS " + " ".join(z(v) for v in ints[12:]) + ")"
            return f"({ta}, {tb}, ({cbool(out['e6'])}, {cbool(out['e3'])}, {out['nick']}))"
        return f"({scheme_term(case['a'])}, {scheme_term(case['b'])}, ({cbool(out['e6'])}, {cbool(out['e3'])}, {out['nick']}))"

    def nontrivial(self, case, out):
        return case["a"] != case["b"]

    def known(self, case, out):
        return "F12"

    def stats(self, case, out, acc):
        k = f"e6={out['e6']},e3={out['e3']},{out['nick']}"
        acc[k] = acc.get(k, 0) + 1
        if case.get("exact"):
            acc["magnitudes/" + case["kind"]] = acc.get("magnitudes/" + case["kind"], 0) + 1


class Presets(Suite):
    name = "presets"
    imports = ["Scheme", "Judge.JC19"]
    judge = "judge_presets"
    exhaustive = True

    def gen(self, tier, rng):
        return [{}]

    def run(self, case):
        return [s.penalty_vectors for s in PRESETS()]

    def term(self, case, out):
        return clist([scheme_term(s) for s in out])


if __name__ == "__main__":
    main("C19", [Presets(), Construct(), Mul(), Equiv()], gen_targets=['scheme'],
         level_note="theorems over all Python-shaped constructor arguments / all integer penalty tuples; float penalties are "
                    "represented on the 1/8000 grid (NaN, inf and non-dyadic values are outside the correspondence); "
                    "score homogeneity is theorem C19_kemeny_homogeneous over the Kemeny specification of C01",
         rule="constructor: rule lattice around 3 valid tuples (every entry x 5 values, pairs of entries x 16 value pairs), malformed "
              "shapes/types at every position, random tuples; mul: presets+random valid schemes x 14 multipliers incl. non-numbers; "
              "equiv: ordered pairs of presets, random valid schemes, their multiples and one-entry near-misses (B or T). "
              "non-trivial = distinct case (for equiv: the two schemes differ)")
