"""A stand-in for the subset of the IBM CPLEX Python API that corankco uses, backed by PuLP + CBC.

CPLEX is not installed in this sandbox. This module lets the code of ExactAlgorithmCplex* and the CPLEX branch of
the ExactAlgorithm selector run unchanged: it accepts the same calls (variables.add, linear_constraints.add,
objective.set_sense, solve, populate_solution_pool, solution.get_values, solution.pool.*), keeps everything it was
given (so that the harness can compare the program with the Coq model row for row) and solves the program with
CBC. It is test scaffolding: it lives in /verif, is put on sys.path only by the suites that need it, and nothing
in /repo refers to it.

populate_solution_pool: all optimal solutions, found by solving again and again with a no-good cut that excludes
the 0/1 points already found, while the optimum does not change (the mip pool of CPLEX with intensity 4 and
absgap ~0 is documented to enumerate all optimal solutions)."""
import pulp

__version__ = "standin-0"
LAST = []          # the Cplex objects created, most recent last (read by the harness)


class _Param:
    def __init__(self):
        self.value = None

    def set(self, value):
        self.value = value

    def get(self):
        return self.value


class _Namespace:
    """attribute access creates nested namespaces / parameters on demand (parameters.mip.pool.intensity ...)"""

    def __getattr__(self, name):
        if name.startswith("__"):
            raise AttributeError(name)
        node = _Namespace() if name in ("mip", "limits", "tolerances", "pool", "parameters") else _Param()
        object.__setattr__(self, name, node)
        return node


class _Sense:
    minimize = 1
    maximize = -1


class _Objective:
    sense = _Sense()

    def __init__(self):
        self._sense = _Sense.minimize

    def set_sense(self, sense):
        self._sense = sense


class _Variables:
    def __init__(self):
        self.names, self.obj, self.lb, self.ub, self.types = [], [], [], [], ""

    def add(self, obj=None, lb=None, ub=None, types="", names=None):
        n = len(names)
        assert len(obj) == len(lb) == len(ub) == n and len(types) == n
        self.names += list(names)
        self.obj += [float(x) for x in obj]
        self.lb += [float(x) for x in lb]
        self.ub += [float(x) for x in ub]
        self.types += types

    def get_num(self):
        return len(self.names)


class _Constraints:
    def __init__(self):
        self.rows, self.senses, self.rhs, self.names = [], "", [], []

    def add(self, lin_expr=None, senses="", rhs=None, names=None):
        assert len(lin_expr) == len(senses) == len(rhs) == len(names), (len(lin_expr), len(senses), len(rhs), len(names))
        self.rows += [([str(v) for v in row[0]], [float(c) for c in row[1]]) for row in lin_expr]
        self.senses += senses
        self.rhs += [float(x) for x in rhs]
        self.names += list(names)


class _Pool:
    def __init__(self, owner):
        self._owner = owner

    def get_num(self):
        return len(self._owner._pool)

    def get_values(self, i):
        return list(self._owner._pool[i])


class _Solution:
    def __init__(self, owner):
        self._owner = owner
        self.pool = _Pool(owner)

    def get_values(self):
        return list(self._owner._values)

    def get_objective_value(self):
        return self._owner._objective_value


class Cplex:
    def __init__(self):
        self.parameters = _Namespace()
        self.objective = _Objective()
        self.variables = _Variables()
        self.linear_constraints = _Constraints()
        self.solution = _Solution(self)
        self._values, self._pool, self._objective_value = None, [], None
        self.solves = 0
        LAST.append(self)

    def set_results_stream(self, stream):
        pass

    set_log_stream = set_warning_stream = set_error_stream = set_results_stream

    # ------------------------------------------------------------------------------------------------------
    def _build(self, cuts):
        prob = pulp.LpProblem("standin", pulp.LpMinimize if self.objective._sense == _Sense.minimize else pulp.LpMaximize)
        v = {}
        for name, lb, ub, ty in zip(self.variables.names, self.variables.lb, self.variables.ub, self.variables.types):
            v[name] = pulp.LpVariable(name, lb, ub, cat="Binary" if ty == "B" else ("Integer" if ty == "I" else "Continuous"))
        prob += pulp.lpSum(v[name] * c for name, c in zip(self.variables.names, self.variables.obj))
        for (names, coefs), sense, rhs in zip(self.linear_constraints.rows, self.linear_constraints.senses, self.linear_constraints.rhs):
            expr = pulp.lpSum(v[n] * c for n, c in zip(names, coefs))
            prob += (expr == rhs) if sense == "E" else ((expr <= rhs) if sense == "L" else (expr >= rhs))
        for ones in cuts:       # no-good cut: at least one binary variable differs from the point already found
            prob += pulp.lpSum((1 - v[n]) if ones[n] else v[n] for n in self.variables.names) >= 1
        return prob, v

    def _solve_once(self, cuts):
        prob, v = self._build(cuts)
        self.solves += 1
        status = prob.solve(pulp.PULP_CBC_CMD(msg=False))
        if pulp.LpStatus[status] != "Optimal":
            return None, None
        values = [float(v[n].value() or 0.0) for n in self.variables.names]
        return values, sum(c * x for c, x in zip(self.variables.obj, values))

    def solve(self):
        self._values, self._objective_value = self._solve_once([])
        if self._values is None:
            raise RuntimeError("stand-in: no optimal solution")

    def populate_solution_pool(self):
        assert set(self.variables.types) <= {"B"}
        self._pool, cuts, best = [], [], None
        while len(self._pool) < 100000:
            values, obj = self._solve_once(cuts)
            if values is None or (best is not None and obj > best + 1e-7):
                break
            best = obj if best is None else best
            self._pool.append(values)
            cuts.append({n: x > 0.5 for n, x in zip(self.variables.names, values)})
        self._objective_value = best
        if self._pool:
            self._values = self._pool[0]
