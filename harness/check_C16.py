"""C16 — Ranking / Dataset views stay consistent through every construction and mutation."""
import copy
from fractions import Fraction
from common import *
import gen
from snap import *
from corankco.ranking import Ranking
from corankco.dataset import Dataset
from corankco.scoringscheme import ScoringScheme

NAME_POOLS = [[0, 1, 2, 3, 4, 5], [8, 16, 24, 32, 3, 11], ["a", "b", "c", "d", "e", "f"], ["1", "2", "03", "4", "5", "10"],
              ["1", "a", "2", "b", "30", "c"], [1, "2", 3, "4", 5, "6"], [1, "x", 2, "y", 3, "z"], ["x y", "p", "q", "-1", "r", "s"],
              [-1, 2, -3, 4, 0, 6], [-1, "2", 3, "4", -5, "6"], [-2, "x", 3, "y", -4, "z"]]


def raw_dataset(rng, nmax=6, mmax=5):
    pool = rng.choice(NAME_POOLS)
    n = rng.randint(1, nmax)
    names = pool[:n]
    m = rng.randint(1, mmax)
    D = [gen.random_ranking(rng, names, rng.choice([1.0, 0.8, 0.5, 0.3]), rng.choice([1.0, 0.7, 0.4])) for _ in range(m)]
    if rng.random() < 0.25:
        D[rng.randrange(m)] = []
    if not any(D):
        D[0] = [[names[0]]]
    return D


def op_term(op):
    k = op["op"]
    if k == "new":
        return f"(OpNew {nrankings_term(op['raw'])})"
    if k == "remove_empty":
        return "OpRemoveEmpty"
    if k == "remove_elements":
        return f"(OpRemoveElements {names_term(op['S'])})"
    if k == "remove_rate":
        return f"(OpRemoveRate {z(op['p'])} {z(op['q'])})"
    if k == "unified_dataset":
        return "OpUnifiedDataset"
    if k == "sub_problem":
        return f"(OpSubProblem {names_term(op['K'])})"
    if k == "refused":
        return "OpRefused"
    raise ValueError(k)


def err_name(e):
    n = type(e).__name__
    return {"EmptyDatasetException": "EmptyDataset", "ValueError": "DValueError", "KeyError": "DKeyError"}.get(n, "Other:" + n)


class Histories(Suite):
    """each case = one step of a history on a shared Dataset object (mutators) or a derived dataset"""
    name = "ops"
    imports = ["Parser", "DatasetModel", "Judge.JC16"]
    judge = "judge_op"
    show = "show_op"
    ctype = "list nranking * op * result derr dsnap"

    def gen(self, tier, rng):
        # a case is a whole history; run() expands it into steps, so here we pre-run to flatten
        steps = []
        nh = 120 if tier == "quick" else 1500
        for _ in range(nh):
            raw = raw_dataset(rng)
            hist = [{"op": "new", "raw": raw}]
            for _ in range(rng.randint(1, 8)):
                r = rng.random()
                if r < 0.3:
                    hist.append({"op": "remove_elements", "pick": [rng.random() for _ in range(6)], "foreign": rng.random() < 0.05})
                elif r < 0.5:
                    hist.append({"op": "remove_rate", "mode": rng.choice(["0", "1/4", "1/2", "1", "above", "below", "at"]), "pick": rng.random()})
                elif r < 0.65:
                    hist.append({"op": "remove_empty"})
                elif r < 0.8:
                    hist.append({"op": "unified_dataset"})
                else:
                    hist.append({"op": "sub_problem", "pick": [rng.random() for _ in range(6)], "by_ids": rng.random() < 0.5})
            steps.extend(self.expand(hist))
        return steps

    def expand(self, hist):
        """run the history on the real library and return one pre-computed case per step"""
        out = []
        ds = None
        for h in hist:
            before = [listing(r) for r in ds.rankings] if ds is not None else []
            op = dict(h)
            try:
                if h["op"] == "new":
                    ds = Dataset.from_raw_list([[set(b) for b in r] for r in h["raw"]])
                    res = ds
                else:
                    univ = [e.value for e in ds.mapping_elem_id.keys()]
                    if h["op"] == "remove_elements":
                        S = [x for x, p in zip(univ, h["pick"]) if p < 0.35]
                        if h["foreign"]:
                            S.append(987654 if isinstance(univ[0], int) else "zz_foreign")
                        op = {"op": "remove_elements", "S": S}
                        ds.remove_elements(set(S))
                        res = ds
                    elif h["op"] == "remove_rate":
                        m = ds.nb_rankings
                        pres = {}
                        for r in ds.rankings:
                            for e in r.domain:
                                pres[e.value] = pres.get(e.value, 0) + 1
                        x = univ[int(h["pick"] * len(univ)) % len(univ)]
                        fr = {"0": Fraction(0), "1/4": Fraction(1, 4), "1/2": Fraction(1, 2), "1": Fraction(1),
                              "at": Fraction(pres[x], m), "above": Fraction(pres[x], m) + Fraction(1, 64),
                              "below": max(Fraction(0), Fraction(pres[x], m) - Fraction(1, 64))}[h["mode"]]
                        # keep the comparison exact in floating point: only dyadic rates (count/m against a dyadic
                        # rate with a small denominator is decided correctly by the rounded quotient)
                        if fr.denominator & (fr.denominator - 1):
                            fr = Fraction(round(fr * 64), 64)
                        rate = fr.numerator / fr.denominator
                        op = {"op": "remove_rate", "p": fr.numerator, "q": fr.denominator}
                        ds.remove_elements_rate_presence_lower_than(rate)
                        res = ds
                    elif h["op"] == "remove_empty":
                        ds.remove_empty_rankings()
                        res = ds
                    elif h["op"] == "unified_dataset":
                        res = ds.unified_dataset()
                    elif h["op"] == "sub_problem":
                        K = [x for x, p in zip(univ, h["pick"]) if p < 0.5]
                        if not h["by_ids"] and h["pick"][-1] < 0.35 and univ:
                            # elements of interest that the dataset does not contain (of the kind of its names): they must simply be ignored
                            K = K + ([max(x for x in univ if isinstance(x, int)) + 17, -4242] if all(isinstance(x, int) for x in univ) else ["zz9", "y y"])
                        op = {"op": "sub_problem", "K": K}
                        if h["by_ids"]:
                            ids = {ds.mapping_elem_id[e] for e in ds.mapping_elem_id if e.value in K}
                            res = ds.sub_problem_from_ids(ids)
                        else:
                            res = ds.sub_problem_from_elements(set(K))
                out.append({"before": before, "op": op, "out": {"ok": dsnap(res)}})
            except Exception as e:
                out.append({"before": before, "op": op, "out": {"err": err_name(e)}})
                # a refused mutator must leave the dataset as it was: one more step observes the object after the exception
                if h["op"] in ("remove_elements", "remove_rate", "remove_empty") and ds is not None:
                    try:
                        out.append({"before": before, "op": {"op": "refused"}, "out": {"ok": dsnap(ds)}})
                    except Exception as e2:
                        import traceback as _tb
                        out.append({"before": before, "op": {"op": "refused"},
                                    "out": {"harness_exception": err_name(e2), "trace": "snapshot after a refused " + h["op"] + ": " + _tb.format_exc()[-500:]}})
                break   # the history stops here
        return out

    def run(self, case):
        return case["out"]

    def term(self, case, out):
        if "err" in out:
            res = "(Err " + (out["err"] if not out["err"].startswith("Other") else "DValueError") + ")"
        else:
            res = f"(Ok {dsnap_term(out['ok'])})"
        return f"({nrankings_term(case['before'])}, {op_term(case['op'])}, {res})"

    def nontrivial(self, case, out):
        return "ok" in out and out["ok"]["nb_elements"] >= 2

    def stats(self, case, out, acc):
        k = case["op"]["op"] + (":" + out["err"] if "err" in out else ":ok")
        acc[k] = acc.get(k, 0) + 1


class Unified(Suite):
    name = "unified_rankings"
    imports = ["Parser", "DatasetModel", "Judge.JC16"]
    judge = "judge_unified"

    def gen(self, tier, rng):
        return [raw_dataset(rng) for _ in range(150 if tier == "quick" else 2000)]

    def run(self, case):
        ds = Dataset.from_raw_list([[set(b) for b in r] for r in case])
        before = [listing(r) for r in ds.rankings]
        return {"before": before, "got": [rsnap(r) for r in ds.unified_rankings()]}

    def term(self, case, out):
        return f"({nrankings_term(out['before'])}, {clist([rsnap_term(r) for r in out['got']])})"

    def known(self, case, out):
        return "F9"

    def stats(self, case, out, acc):
        acc["some_missing"] = acc.get("some_missing", 0) + int(any(len(g["buckets"]) != len(b) for g, b in zip(out["got"], out["before"])))


class Views(Suite):
    """every Ranking obtainable from the API reports views that agree with its buckets"""
    name = "views"
    imports = ["Parser", "DatasetModel", "Judge.JC16"]
    judge = "judge_rankings"

    def gen(self, tier, rng):
        return [{"seed": rng.randrange(10 ** 9), "D": raw_dataset(rng)} for _ in range(120 if tier == "quick" else 1500)]

    def run(self, case):
        import random
        from corankco.algorithms.borda.borda import BordaCount
        from corankco.algorithms.copeland.copeland import CopelandMethod
        from corankco.algorithms.pickaperm.pickaperm import PickAPerm
        from corankco.algorithms.kwiksort.kwiksortrandom import KwikSortRandom
        from corankco.algorithms.bioconsert.bioconsert import BioConsert
        random.seed(case["seed"])
        rs = []
        rs += [Ranking([set(b) for b in r]) for r in case["D"]]                      # constructor
        rs += [Ranking.from_string(str(r)) for r in rs[:2]]                           # parsing
        rs += Ranking.generate_rankings(4, 2, 15, random.random() < 0.5)              # generators
        rs += Ranking.uniform_permutations(4, 1)
        ds = Dataset.from_raw_list([[set(b) for b in r] for r in case["D"]])
        sc = ScoringScheme.get_unifying_scoring_scheme()
        for alg in (BordaCount(), CopelandMethod(), PickAPerm(), KwikSortRandom(), BioConsert()):
            rs += list(alg.compute_consensus_rankings(ds, sc, False).consensus_rankings)   # consensus rankings
        rs += list(ds.unified_rankings())
        return [rsnap(r) for r in rs]

    def term(self, case, out):
        return f"({nrankings_term([s['buckets'] for s in out])}, {clist([rsnap_term(s) for s in out])})"

    def known(self, case, out):
        return "F9"


if __name__ == "__main__":
    main("C16", [Histories(), Unified(), Views()],
         level_note="set / dict iteration order is observed (the harness lists buckets as the interpreter iterates them), not modelled; "
                    "a mutator that raises (KeyError for a foreign element, EmptyDataset) ends the history",
         rule="histories: a dataset built from raw lists over 8 name pools (ints, colliding ints, letters, digit strings incl. '03', mixed "
              "int/str, mixed digit/letter strings) followed by 1-8 operations among remove_elements (random subset, 5% foreign), "
              "remove_elements_rate_presence_lower_than (0, 1/4, 1/2, 1, at/above/below an element's rate), remove_empty_rankings, "
              "unified_dataset, sub_problem_from_elements/ids; after every step the whole public snapshot is judged in Coq. "
              "non-trivial = successful step with >= 2 elements")
