"""C18 — rankings and datasets survive a round trip through text and files; parser totality."""
import itertools
import os
import shutil
import tempfile
from common import *
import gen
from corankco.ranking import Ranking
from corankco.dataset import Dataset

ALPHA = "[]{},:a1 "


def codes(s):
    assert all(ord(c) < 128 for c in s), s
    return natlist([ord(c) for c in s])


def name_term(v):
    if isinstance(v, int) and not isinstance(v, bool):
        return f"(NInt {z(v)})"
    return f"(NS {natlist([ord(c) for c in v])})"


def nranking_term(r):
    return clist([clist([name_term(e) for e in b]) for b in r])


def listing(r):
    return [[e.value for e in b] for b in r.buckets]


def parse_outcome(text):
    def f():
        try:
            r = Ranking.from_string(text)
            return 0, listing(r)
        except ValueError:
            return 1, []
        except Exception as e:
            return 2, [[type(e).__name__]]
    try:
        return with_timeout(f, 5)
    except Hang:
        return 3, []


class Text(Suite):
    escalate_cap = 3000
    name = "text"
    imports = ["Parser", "Judge.JC18"]
    judge = "judge_text"
    show = "show_text"
    ctype = "list nat * Z * list (list name)"

    def gen(self, tier, rng):
        cases = []
        kmax = 4 if tier == "quick" else 5
        for k in range(kmax + 1):
            for t in itertools.product(ALPHA, repeat=k):
                cases.append("".join(t))
        self.n_exhaustive = len(cases)
        # near-valid renderings with one delimiter flipped / dropped / doubled, prefixes, whitespace
        n = 1500 if tier == "quick" else 20000
        pool_names = ["a", "b", "ab", "1", "2", "10", "007", "x y", "a1", "-1", "+3", "1_0", "é"[:0] + "q"]
        for _ in range(n):
            k = rng.randint(0, 4)
            names = rng.sample(pool_names, min(len(pool_names), rng.randint(0, 5)))
            r = gen.random_ranking(rng, names, 1.0, rng.choice([1.0, 0.6, 0.3])) if names else []
            op, cl = rng.choice([("{", "}"), ("[", "]")])
            txt = "[" + ", ".join(op + rng.choice([", ", ",", " , "]).join(map(str, b)) + cl for b in r) + "]"
            if rng.random() < 0.3:
                txt = rng.choice(["r1", "name", "", "a:b"]) + ":" + txt
            if rng.random() < 0.3:
                txt = rng.choice([" ", "\t", "\n", "  "]) + txt + rng.choice([" ", "\n", "\r\n", ""])
            for _ in range(k if rng.random() < 0.7 else 0):
                if not txt:
                    break
                i = rng.randrange(len(txt))
                op2 = rng.random()
                if op2 < 0.35:
                    txt = txt[:i] + txt[i + 1:]
                elif op2 < 0.7:
                    txt = txt[:i] + rng.choice("[]{},: a1") + txt[i:]
                else:
                    txt = txt[:i] + rng.choice("[]{},: ") + txt[i + 1:]
            cases.append(txt)
        return cases

    def run(self, case):
        cls, v = parse_outcome(case)
        return {"cls": cls, "v": v}

    def term(self, case, out):
        v = out["v"] if out["cls"] == 0 else []
        return f"({codes(case)}, {z(out['cls'])}, {nranking_term(v)})"

    def nontrivial(self, case, out):
        return len(case) >= 3

    def stats(self, case, out, acc):
        k = {0: "parsed", 1: "ValueError", 2: "other-exception", 3: "hang"}[out["cls"]]
        acc[k] = acc.get(k, 0) + 1
        if out["cls"] == 0 and out["v"]:
            acc["parsed_nonempty"] = acc.get("parsed_nonempty", 0) + 1


OK_STR = ["a", "b", "c", "ab", "x y", "a1", "1a", "A_b", "é"[:0] + "z9", "-", "a-b", "q.r", "'", "\"", "a'b", "tab\tin", "p%", "%p", "\\"]


def ok_names(rng, n):
    r = rng.random()
    if r < 0.12:
        # integers that binary floating point cannot hold exactly (beyond 2^53), neighbours that a float would merge, timestamps in ns
        return rng.sample([2 ** 53, 2 ** 53 + 1, 2 ** 53 + 3, 9007199254740993 + 10 ** 6, 1727740800000000000, 1727740800000000001,
                           2 ** 63 - 1, 2 ** 64 + 1, 10 ** 30 + 7, 3], n)
    if r < 0.5:
        return rng.sample([0, 1, 2, 3, 5, 8, 10, 16, 24, 100, 12345, 7], n)
    return rng.sample(OK_STR, n)


class RoundTrip(Suite):
    name = "roundtrip"
    imports = ["Parser", "Judge.JC18"]
    judge = "judge_roundtrip"
    show = "show_roundtrip"
    ctype = "list (list name) * list nat * list nat * Z * list (list name)"

    def gen(self, tier, rng):
        cases = []
        for _ in range(600 if tier == "quick" else 8000):
            n = rng.randint(0, 6)
            names = ok_names(rng, n)
            r = gen.random_ranking(rng, names, 1.0, rng.choice([1.0, 0.6, 0.3]))
            cases.append({"r": r, "notation": rng.choice(["brace", "bracket"]),
                          "prefix": rng.choice(["", "", "r1:", "my ranking : ", "a:b:"]),
                          "ws1": rng.choice(["", "", " ", "\t", "\n "]), "ws2": rng.choice(["", "", " ", "\n", " \r\n"])})
        return cases

    def run(self, case):
        R = Ranking([set(b) for b in case["r"]])
        # str(Ranking) prints set(bucket), a copy whose iteration order may differ from the bucket's own
        lst = [[e.value for e in set(b)] for b in R.buckets]
        rendered = str(R)
        body = rendered if case["notation"] == "brace" else rendered.replace("{", "[").replace("}", "]")
        txt = case["ws1"] + case["prefix"] + case["ws1"] + body + case["ws2"]
        cls, v = parse_outcome(txt)
        eq = None
        if cls == 0:
            eq = bool(Ranking.from_string(txt) == R)
        return {"listing": lst, "rendered": rendered, "txt": txt, "cls": cls, "v": v, "impl_eq": eq}

    def term(self, case, out):
        v = out["v"] if out["cls"] == 0 else []
        return f"({nranking_term(out['listing'])}, {codes(out['txt'])}, {codes(out['rendered'])}, {z(out['cls'])}, {nranking_term(v)})"

    def nontrivial(self, case, out):
        return len(out["listing"]) >= 1

    def stats(self, case, out, acc):
        acc[case["notation"]] = acc.get(case["notation"], 0) + 1
        acc["impl_eq_true"] = acc.get("impl_eq_true", 0) + int(out["impl_eq"] is True)
        acc["string_names"] = acc.get("string_names", 0) + int(any(isinstance(e, str) for b in out["listing"] for e in b))


class File(Suite):
    name = "file"
    imports = ["Parser", "Judge.JC18"]
    judge = "judge_file"
    show = "show_file"
    ctype = "list (list (list name)) * list nat * Z * list (list (list name))"

    def gen(self, tier, rng):
        cases = []
        for _ in range(300 if tier == "quick" else 4000):
            n = rng.randint(1, 6)
            names = ok_names(rng, n)
            names = [x for x in names if not (isinstance(x, str) and ("\n" in x or "\t" in x or x in ("\\",)))] or [1]
            m = rng.randint(1, 5)
            D = [gen.random_ranking(rng, names, rng.choice([1.0, 0.7, 0.4]), rng.choice([1.0, 0.6])) for _ in range(m)]
            if rng.random() < 0.3:
                D[rng.randrange(m)] = []          # an empty ranking (F13)
            if not any(D):
                D[0] = [[names[0]]]
            # how the fresh file is designated: absolute path, bare name in the current directory, ./name, sub-directory/name
            cases.append({"D": D, "how": rng.choice(["abs", "abs", "bare", "dot", "sub"]), "printed_then_changed": rng.random() < 0.25})
        return cases

    def run(self, case):
        ds = Dataset.from_raw_list([[set(b) for b in r] for r in case["D"]])
        if case.get("printed_then_changed"):
            # the dataset was printed (and written once) before it was modified in place: what is written afterwards must be what it is NOW
            try:
                str(ds), repr(ds), ds.description()
                d0 = tempfile.mkdtemp(prefix="corankco_c18_")
                ds.write(os.path.join(d0, "first.txt"))
                shutil.rmtree(d0, ignore_errors=True)
                univ = sorted(ds.universe, key=lambda e: str(e.value))
                if len(univ) >= 2:
                    ds.remove_elements({univ[0]})
                ds.remove_empty_rankings()
            except Exception:
                pass
        lst = [listing(r) for r in ds.rankings]
        d = tempfile.mkdtemp(prefix="corankco_c18_")
        cwd = os.getcwd()
        try:
            how = case.get("how", "abs")
            if how != "abs":
                os.chdir(d)
                os.makedirs(os.path.join(d, "sub"), exist_ok=True)
            path = {"abs": os.path.join(d, "data.txt"), "bare": "data.txt", "dot": "./data.txt", "sub": "sub/data.txt"}[how]
            ds.write(path)
            if not os.path.exists(path):
                return {"harness_exception": "NoFileWritten", "trace": f"Dataset.write({path!r}) returned but no file exists (cwd = a fresh directory)"}
            text = open(path, encoding="utf-8").read()
            try:
                ds2 = Dataset.from_file(path)
                out = {"cls": 0, "v": [listing(r) for r in ds2.rankings], "impl_eq": bool(ds2 == ds)}
            except ValueError:
                out = {"cls": 1, "v": []}
            except Exception as e:
                out = {"cls": 2, "v": [], "exc": type(e).__name__}
        finally:
            os.chdir(cwd)
            shutil.rmtree(d, ignore_errors=True)
        out.update({"listing": lst, "text": text})
        return out

    def term(self, case, out):
        d = clist([nranking_term(r) for r in out["listing"]])
        v = clist([nranking_term(r) for r in out["v"]])
        return f"({d}, {codes(out['text'])}, {z(out['cls'])}, {v})"

    def known(self, case, out):
        return "F13" if any(len(r) == 0 for r in out["listing"]) else None

    def stats(self, case, out, acc):
        acc["with_empty_ranking"] = acc.get("with_empty_ranking", 0) + int(any(len(r) == 0 for r in out["listing"]))
        acc["impl_eq_true"] = acc.get("impl_eq_true", 0) + int(out.get("impl_eq") is True)
        acc[f"cls={out['cls']}"] = acc.get(f"cls={out['cls']}", 0) + 1


if __name__ == "__main__":
    main("C18", [Text(), RoundTrip(), File()],
         level_note="ASCII text only (non-ASCII digits / whitespace are not modelled); element names of the round trip are non-negative "
                    "integers or non-empty strings without [ ] { } , : and without leading/trailing white space that Python's int() does "
                    "not accept; rankings with an empty bucket print as set() and are outside the property's domain",
         rule="text: EVERY string of length <= 4 (thorough: 5) over the alphabet [ ] { } , : a 1 space, plus near-valid renderings with "
              "up to 4 single-character edits, prefixes and white space; roundtrip: random rankings over integer / string names, both "
              "notations, prefix and white-space variants; file: random datasets (30% with an empty ranking) written to a fresh temporary "
              "file and read back. non-trivial: text of length >= 3 / non-empty ranking")
