"""C08 — BioConsert returns a local optimum of the Kemeny score (also feeds C09 / C04 through the same judge)."""
import numpy as np
from common import *
import gen
from algos import *
from corankco.algorithms.bioconsert import bioconsert as bc
from corankco.algorithms.bioconsert.bioconsert import BioConsert
from corankco.algorithms.bioconsert.bioco import BioCo
from corankco.algorithms.borda.borda import BordaCount
from corankco.algorithms.copeland.copeland import CopelandMethod
from corankco.algorithms.pickaperm.pickaperm import PickAPerm
from corankco.algorithms.pairwisebasedalgorithm import PairwiseBasedAlgorithm
from check_C02 import units_matrix, triple_mat_term
from check_C20 import dense_vectors

STARTERS = {"none": None, "bioco": "bioco", "borda": [BordaCount], "copeland": [CopelandMethod], "pickaperm": [PickAPerm],
            "borda+copeland": [BordaCount, CopelandMethod], "copeland+pickaperm+borda": [CopelandMethod, PickAPerm, BordaCount],
            "borda+copeland+pickaperm": [BordaCount, CopelandMethod, PickAPerm],
            # two starters of the same class that differ by a constructor argument only (same full name)
            "borda+borda_bid": [BordaCount, lambda: BordaCount(use_bucket_id=True)],
            "borda_bid+borda": [lambda: BordaCount(use_bucket_id=True), BordaCount]}


def bio_scheme(rng):
    # schemes every starter accepts on incomplete data: the unifying family; otherwise any scheme with no starters
    return rng.choice([gen.UNIFYING, gen.UNIFYING, [[x * 2 for x in gen.UNIFYING[0]], [x * 2 for x in gen.UNIFYING[1]]]])


class Improve(Suite):
    """unit level: the jitted local search on explicit tables and starting vectors"""
    name = "improve"
    imports = ["Scheme", "Rank", "BioConsert", "Judge.JBio"]
    judge = "judge_improve"
    show = "show_improve"

    def gen(self, tier, rng):
        cases = []
        # all dense starting vectors of length <= 4 (no -1) on a few random tables
        for n in (2, 3, 4):
            vecs = [v for v in dense_vectors(n) if -1 not in v]
            for _ in range(2 if tier == "quick" else 12):
                D = gen.random_dataset(rng, n, 4, names=list(range(n)))
                univ = sorted({e for r in D for b in r for e in b})
                if len(univ) != n:
                    continue
                s = opt_scheme(rng)
                for v in vecs:
                    cases.append({"s": s, "D": D, "r0": v})
        for _ in range(400 if tier == "quick" else 4000):
            D = gen.random_dataset(rng, 8, 5)
            n = len({e for r in D for b in r for e in b})
            r0 = rng.choice([v for v in [gen.random_ranking(rng, list(range(n)), 1.0, rng.choice([1.0, 0.5, 0.2]))]])
            vec = [0] * n
            for k, b in enumerate(r0):
                for e in b:
                    vec[e] = k
            cases.append({"s": opt_scheme(rng), "D": D, "r0": vec})
        return cases

    def run(self, case):
        ds, sc = mk(case["D"], case["s"])
        M = PairwiseBasedAlgorithm.pairwise_cost_matrix(ds.get_positions(), sc)
        n = ds.nb_elements
        r = np.array(case["r0"], dtype=np.int32)
        delta = bc._improve_one_ranking(r, M.flatten(), n)
        return {"M": units_matrix(M.tolist()), "r1": [int(x) for x in r], "delta": to_units(delta)}

    def term(self, case, out):
        assert out["delta"] is not None
        return f"({triple_mat_term(out['M'])}, {zlist(case['r0'])}, {zlist(out['r1'])}, {z(out['delta'])})"

    def nontrivial(self, case, out):
        return out["r1"] != case["r0"]

    def stats(self, case, out, acc):
        acc[f"n={len(case['r0'])}"] = acc.get(f"n={len(case['r0'])}", 0) + 1
        acc["moved"] = acc.get("moved", 0) + int(out["r1"] != case["r0"])


class Bio(Suite):
    scribbled_rate = 0.1     # share of the cases where the caller scribbled on what the read accessors returned (algos.scribble)
    seasoned_rate = 0.12     # share of the cases run on algorithm objects that have served before (algos.seasoned)
    names_rate, past_rate = 0.06, 0.06     # hostile element names / datasets with a past (gen.decorate_cases)
    name = "bioconsert"
    imports = ["Scheme", "Rank", "BioConsert", "Judge.JBio"]
    judge = "judge_bio"
    show = "show_bio"

    def gen(self, tier, rng):
        # two datasets (found by a long random search, kept as a corpus) on which the consensus of a single starter is strictly better than
        # every local optimum reached from the input rankings: whatever way the starters are handed over, the result must not be worse
        W1 = [[[9], [6], [1], [2], [7], [5], [3], [8, 4]], [[3], [7], [4], [2, 5], [6], [8, 1], [9]], [[6, 7], [2, 4], [3, 5], [1], [9], [8]]]
        W2 = [[[5], [1], [6], [2], [7], [4], [8, 3]], [[1], [3, 4, 6], [7], [2, 5], [8]], [[3], [4], [5, 7], [8], [6], [1, 2]]]
        corpus = [{"s": gen.UNIFYING, "D": W, "starters": st, "one": one, "as_tuple": tup}
                  for W, st in ((W1, "borda"), (W2, "copeland")) for one in (True, False) for tup in (True, False)]
        # three datasets on which the two Borda variants (bucket sizes / bucket ids) disagree and the consensus of one of them is strictly
        # better than the local optimum reached from the other: both are starting points, the result must not be worse than either
        W3 = [[[4], [2, 3], [1, 5, 6]], [[4, 5], [6], [3], [1], [2]], [[4], [5], [1], [2], [6], [3]], [[1, 2, 3, 4, 5, 6]]]
        W4 = [[[1, 2, 4], [5], [3]], [[3, 4], [2, 5], [1]], [[1, 3, 5], [2], [4]]]
        W5 = [[[1, 4], [2, 3]], [[3], [4], [2], [1]], [[4], [1, 2, 3]], [[2], [3], [1, 4]], [[1], [2], [3], [4]]]
        corpus += [{"s": sch, "D": W, "starters": st, "one": one, "as_tuple": False}
                   for W, sch in ((W3, gen.UNIFYING), (W4, gen.UNIFYING_HALF), (W5, gen.UNIFYING_HALF))
                   for st in ("borda+borda_bid", "borda_bid+borda") for one in (True, False)]
        cases = corpus + [{"s": gen.GENERIC, "D": [[[3]], [[2]], [[1], [2]]], "starters": "none", "one": False},   # F3 witness
                 {"s": gen.UNIFYING, "D": [[[1]], [[3], [2]]], "starters": "none", "one": False}]       # F4: id orders differ
        for _ in range(260 if tier == "quick" else 4000):
            st = rng.choice(list(STARTERS))
            # adversarial for F4: first-appearance order in the dataset differs from the order in unified / consensus rankings
            D = gen.random_dataset(rng, 7, 5) if rng.random() < 0.6 else layered_dataset(rng, 7, 5)
            s = opt_scheme(rng) if st in ("none", "copeland") else bio_scheme(rng)
            cases.append({"s": s, "D": D, "starters": st, "one": rng.random() < 0.4, "as_tuple": rng.random() < 0.3, "np_print": rng.random() < 0.2})
        # a duplicated input ranking placed BEFORE a distinct, much better one (e.g. a previously computed consensus
        # appended to the data), and two starters with the same consensus listed before a better one
        for _ in range(60 if tier == "quick" else 800):
            n = rng.randint(6, 8)
            hidden = list(range(n))
            rng.shuffle(hidden)

            def noisy(k):
                p = hidden[:]
                for _ in range(k):
                    i, j = rng.sample(range(n), 2)
                    p[i], p[j] = p[j], p[i]
                return [[e] for e in p]
            first = noisy(rng.randint(2, 4))
            D = [first, [list(b) for b in first]] + [noisy(rng.randint(2, 5)) for _ in range(rng.randint(1, 3))] + [[[e] for e in hidden]]
            cases.append({"s": gen.UNIFYING, "D": D, "starters": rng.choice(["none", "none", "borda+copeland+pickaperm"]), "one": rng.random() < 0.3,
                          "np_print": rng.random() < 0.5})
        # incomplete datasets in which some rankings are a single bucket over a part of the universe, under schemes where ties are cheap:
        # the all-tied departure (one of the starting points the statement names) is then the best one, and no input ranking stands for it
        # (the local search reaches it from the other departures in about 99 cases out of 100: hence the number of cases)
        for _ in range(100 if tier == "quick" else 1500):
            n = rng.randint(3, 6)
            univ = list(range(n))
            D = []
            for _ in range(rng.randint(2, 4)):
                part = [e for e in univ if rng.random() < 0.6] or [rng.choice(univ)]
                if rng.random() < 0.9:
                    D.append([part])
                else:
                    rng.shuffle(part)
                    k = rng.randint(1, len(part))
                    D.append([part[:k]] + [[e] for e in part[k:]])
            p = rng.choice([0.25, 0.5, 0.125])
            s = rng.choice([[[0.0, 1.0, p, 0.0, 0.0, 0.0], [p, p, 0.0, 0.0, 0.0, 0.0]]] * 4 + [[[0.0, 1.0, p, 0.0, 1.0, p], [p, p, 0.0, p, p, 0.0]],
                            [[0.0, 1.0, p, 0.0, 1.0, 0.0], [p, p, 0.0, p, p, 0.0]]])
            cases.append({"s": s, "D": D, "starters": "none", "one": rng.random() < 0.4})
        # ... and the shape on which the search from the input rankings stays on a plateau above it: two single-bucket rankings that overlap
        for _ in range(90 if tier == "quick" else 1000):
            n = rng.randint(3, 7)
            univ = list(range(n))
            rng.shuffle(univ)
            a = rng.randint(1, n - 2)
            b = rng.randint(1, n - 1 - a)
            A, B, C = univ[:a], univ[a:a + b], univ[a + b:]
            D = [[A + C], [B + C]]
            if rng.random() < 0.3:
                D.append([list(rng.choice([A + C, B + C]))])
            if rng.random() < 0.3:
                D.append([[e] for e in rng.sample(univ, rng.randint(1, 2))])
            p = rng.choice([0.25, 0.5, 0.125])
            s = rng.choice([[[0.0, 1.0, p, 0.0, 0.0, 0.0], [p, p, 0.0, 0.0, 0.0, 0.0]]] * 3 + [[[0.0, 1.0, p, 0.0, 1.0, p], [p, p, 0.0, p, p, 0.0]]])
            cases.append({"s": s, "D": D, "starters": "none", "one": rng.random() < 0.4})
        return cases

    def run(self, case):
        import random
        random.seed(4242)
        ds, sc = mk(case["D"], case["s"])
        st = STARTERS[case["starters"]]
        if st == "bioco":
            alg = BioCo()
            starts = [BordaCount()]
        elif st is None:
            alg = BioConsert()
            starts = None
        else:
            starts = [c() for c in st]
            # any iterable of algorithms is a valid way to give the starters: sometimes a tuple
            alg = BioConsert(starting_algorithms=tuple(starts) if case.get("as_tuple") else starts)
        out = {"D": gen.observe(ds), "U": gen.id_order(ds)}
        try:
            if starts is not None:
                out["starts"] = [lst(a.compute_consensus_rankings(ds, sc, True).consensus_rankings[0]) for a in starts]
            if case.get("seasoned"):
                seasoned(alg, case["D"], case["s"])
            if case.get("np_print"):
                # numpy's print options are global state that any caller may have changed (here: arrays of more than 4 entries are
                # abbreviated, as they are by default beyond 1000): what the algorithm returns must not depend on how arrays PRINT
                import numpy as _np
                with _np.printoptions(threshold=4, edgeitems=1):
                    cons = alg.compute_consensus_rankings(ds, sc, case["one"])
            else:
                cons = alg.compute_consensus_rankings(ds, sc, case["one"])
            out["cons"] = [lst(r) for r in cons.consensus_rankings]
            out["score"] = to_units(cons.kemeny_score)
            out["raw"] = float(cons.kemeny_score)
        except Exception as e:
            out["err"] = type(e).__name__ + ": " + str(e)[:100]
        return out

    def escalate(self, tier, rng, disagreeing):
        """the model and the library disagree (e.g. on the departure rankings) but no explored input violates the statement: look for
        one. Candidates: the disagreeing datasets with their rankings duplicated / reordered, and tie-heavy datasets whose repeated
        rankings come BEFORE later distinct ones, under every starter configuration; an untrusted pre-filter (the library's own Kemeny
        score of the answer against the scores of the departures) keeps the promising ones; Coq judges them like any other case."""
        from corankco.kemeny_score_computation import KemenyComputingFactory
        from corankco.ranking import Ranking
        cands = []
        pool = [c for c in disagreeing if "D" in c][:40]
        pool_has_tuple = any(c.get("as_tuple") for c in pool)
        budget = (4000 if pool_has_tuple else 1200) if tier == "quick" else 12000
        for _ in range(budget):
            r = rng.random()
            if pool and r < 0.4:
                base = rng.choice(pool)
                D = [[list(b) for b in rk] for rk in base["D"]]
                rng.shuffle(D)
                k = rng.randrange(len(D))
                D = [D[k]] * rng.randint(1, 3) + D
                s, st = base["s"], rng.choice([base["starters"], "none", "borda+copeland+pickaperm", "copeland+pickaperm+borda"])
            else:
                n = rng.randint(5, 7)
                univ = list(range(n))

                def coarse():
                    # a ranking with 2-4 buckets: local search gets trapped between coarse rankings
                    p = univ[:]
                    rng.shuffle(p)
                    cuts = sorted(rng.sample(range(1, n), rng.randint(1, 3)))
                    return [p[i:j] for i, j in zip([0] + cuts, cuts + [n])]
                distinct = [coarse() if rng.random() < 0.7 else gen.random_ranking(rng, univ, 1.0, 0.5) for _ in range(rng.randint(2, 3))]
                D = []
                for k, rk in enumerate(distinct):
                    # the LAST distinct ranking is the majority (the good departure); the earlier ones are repeated too
                    D += [[list(b) for b in rk]] * (rng.randint(3, 5) if k == len(distinct) - 1 else rng.randint(2, 3))
                s, st = gen.UNIFYING, rng.choice(["none", "none", "borda+copeland+pickaperm", "copeland+pickaperm+borda"])
            if st != "none" and st != "copeland":
                s = bio_scheme(rng) if s not in (gen.UNIFYING,) else s
            tup = pool_has_tuple and rng.random() < 0.75
            if tup:
                st = rng.choice(["borda", "copeland", "borda+copeland"])
                n = rng.randint(7, 9)
                D = [gen.random_ranking(rng, list(range(n)), 1.0, rng.choice([0.8, 0.6])) for _ in range(3)]
                s = gen.UNIFYING
            case = {"s": s, "D": D, "starters": st, "one": rng.random() < 0.4, "as_tuple": tup}
            try:
                out = self.run(case)
                if "cons" not in out:
                    continue
                ds, sc = mk(case["D"], case["s"])
                kc = KemenyComputingFactory(sc)
                univ_elems = set(ds.universe)
                deps = [Ranking([set(b) for b in rk]) for rk in out.get("starts", [])] if "starts" in out else \
                    list(ds.unified_rankings()) + [Ranking([univ_elems])]
                got = [kc.get_kemeny_score(Ranking([set(b) for b in rk]), ds) for rk in out["cons"]]
                best_dep = min(kc.get_kemeny_score(d, ds) for d in deps)
                if max(got) > best_dep + 1e-9 or max(got) - min(got) > 1e-9 or abs(out["raw"] - min(got)) > 1e-6:
                    cands.append(case)
                    if len(cands) >= 25:
                        break
            except Exception as e:
                self.escalate_errors = getattr(self, "escalate_errors", 0) + 1
                if self.escalate_errors <= 2:
                    print("   (escalate: candidate skipped: " + type(e).__name__ + ": " + str(e)[:120] + ")")
                continue
        return cands

    def term(self, case, out):
        if "err" in out or out.get("score") is None:
            return (f"(mkBio {scheme_term(case['s'])} {dataset_term(out['D'])} {natlist(out['U'])} None {cbool(case['one'])} "
                    f"(-1) [])")
        starts = "None" if "starts" not in out else "(Some " + clist([ranking_term(r) for r in out["starts"]]) + ")"
        return (f"(mkBio {scheme_term(case['s'])} {dataset_term(out['D'])} {natlist(out['U'])} {starts} {cbool(case['one'])} "
                f"{z(out['score'])} {clist([ranking_term(r) for r in out['cons']])})")

    def nontrivial(self, case, out):
        return "cons" in out and len(out["U"]) >= 3

    def stats(self, case, out, acc):
        acc["starters=" + case["starters"]] = acc.get("starters=" + case["starters"], 0) + 1
        acc["exceptions"] = acc.get("exceptions", 0) + int("err" in out)
        acc["several_returned"] = acc.get("several_returned", 0) + int(len(out.get("cons", [])) > 1)
        inc = any({e for b in r for e in b} != set(out["U"]) for r in out["D"])
        acc["incomplete"] = acc.get("incomplete", 0) + int(inc)


if __name__ == "__main__":
    import sys
    prop = os.environ.get("VERIF_PROP", "C08")
    main(prop, [Improve(), Bio()], gen_targets=["delta", "moves", "biokernel", "step6"],
         level_note="see MANIFEST",
         rule="improve: the jitted local search from EVERY tie/order pattern (dense bucket-id vector) of length <= 4 on random tables, and "
              "from random vectors up to 8 elements; bioconsert: witnesses of F3/F4, random and layered datasets up to 7 elements with 7 "
              "starting configurations (none, BioCo, Borda, Copeland, PickAPerm, two and three starters), both values of "
              "return_at_most_one_ranking; every returned ranking is judged in Coq for well-formedness, local optimality against ALL "
              "single-element moves, reported score, and score <= every departure. non-trivial: the search moved / >= 3 elements")
