"""Input generators shared by the checks (all randomness from the rng passed in)."""
import itertools

GENERIC = [[0.0, 1.0, 0.5, 0.25, 0.75, 2.0], [0.5, 0.5, 0.0, 1.5, 1.5, 0.25]]
UNIFYING = [[0.0, 1.0, 1.0, 0.0, 1.0, 1.0], [1.0, 1.0, 0.0, 1.0, 1.0, 0.0]]
PSEUDO = [[0.0, 1.0, 1.0, 0.0, 1.0, 0.0], [1.0, 1.0, 0.0, 1.0, 1.0, 0.0]]
INDUCED = [[0.0, 1.0, 1.0, 0.0, 0.0, 0.0], [1.0, 1.0, 0.0, 0.0, 0.0, 0.0]]
EXTENDED = [[0.0, 1.0, 0.0, 0.0, 0.0, 0.0], [1.0, 1.0, 0.0, 1.0, 1.0, 1.0]]
UNIFYING_HALF = [[0.0, 1.0, 0.5, 0.0, 1.0, 0.5], [0.5, 0.5, 0.0, 0.5, 0.5, 0.0]]
INDUCED_HALF = [[0.0, 1.0, 0.5, 0.0, 0.0, 0.0], [0.5, 0.5, 0.0, 0.0, 0.0, 0.0]]
PRESET_SCHEMES = [UNIFYING, PSEUDO, INDUCED, EXTENDED, UNIFYING_HALF, INDUCED_HALF]
GRID = (0, 0.125, 0.25, 0.5, 0.75, 1, 1.5, 2, 3)


def random_scheme(rng, grid=GRID):
    b = [0, rng.choice(grid[1:]), rng.choice(grid), rng.choice(grid), rng.choice(grid), rng.choice(grid)]
    if b[3] > b[4]:
        b[3], b[4] = b[4], b[3]
    t01 = rng.choice(grid)
    t34 = rng.choice(grid)
    t = [t01, t01, 0, t34, t34, rng.choice(grid)]
    return [list(map(float, b)), list(map(float, t))]


def big_scheme(rng):
    """penalties of very different magnitudes, all exactly representable: huge pairwise costs that differ by one unit"""
    big = rng.choice([1e6, 2.0 ** 22, 1e7])
    return rng.choice([[[0.0, 1.0, 1.0, 0.0, big, 0.0], [1.0, 1.0, 0.0, 1.0, 1.0, 0.0]],
                       [[0.0, 1.0, 1.0, big, big, big], [1.0, 1.0, 0.0, big, big, 0.0]],
                       [[0.0, 1.0, big, 0.0, 1.0, 1.0], [big, big, 0.0, 1.0, 1.0, 0.0]],
                       [[0.0, big, 1.0, 0.0, big, 1.0], [1.0, 1.0, 0.0, 1.0, 1.0, 0.0]]])


def pick_scheme(rng):
    r = rng.random()
    if r < 0.05:
        return big_scheme(rng)
    if r < 0.35:
        return rng.choice(PRESET_SCHEMES)
    if r < 0.5:
        return GENERIC
    return random_scheme(rng)


def set_partitions_ordered(elems):
    """all rankings with ties (ordered set partitions) of the list elems"""
    elems = list(elems)
    if not elems:
        yield []
        return
    n = len(elems)
    # choose the first bucket (non-empty subset), recurse on the rest
    for k in range(1, n + 1):
        for first in itertools.combinations(elems, k):
            rest = [e for e in elems if e not in first]
            for tail in set_partitions_ordered(rest):
                yield [list(first)] + tail


def all_partial_rankings(universe):
    """all rankings with ties over all subsets of universe (the empty ranking included)"""
    universe = list(universe)
    out = []
    for k in range(len(universe) + 1):
        for sub in itertools.combinations(universe, k):
            out.extend(set_partitions_ordered(sub))
    return out


def random_ranking(rng, universe, p_present=0.8, p_newbucket=0.6):
    els = [e for e in universe if rng.random() < p_present]
    rng.shuffle(els)
    r = []
    for e in els:
        if r and rng.random() >= p_newbucket:
            r[-1].append(e)
        else:
            r.append([e])
    return r


def random_dataset(rng, nmax=8, mmax=6, names=None):
    n = rng.randint(1, nmax)
    m = rng.randint(1, mmax)
    if names is None:
        pool = rng.choice([list(range(n)), list(range(1, n + 1)), [8 * i for i in range(n)], rng.sample(range(40), n)])
    else:
        pool = names[:n]
    mode = rng.random()
    p_present = 1.0 if mode < 0.3 else rng.choice([0.9, 0.7, 0.5, 0.3])
    p_new = rng.choice([1.0, 0.8, 0.6, 0.3])
    while True:
        d = [random_ranking(rng, pool, p_present, p_new) for _ in range(m)]
        if rng.random() < 0.15 and m > 1:
            d[rng.randrange(m)] = [list(b) for b in d[rng.randrange(m)]]  # duplicate ranking
        if any(len(r) > 0 for r in d):
            return d


def observe(ds):
    """the dataset's rankings as lists of buckets in the iteration order the interpreter produces"""
    return [[[back(e.value) for e in b] for b in r.buckets] for r in ds.rankings]


def id_order(ds):
    return [back(ds.mapping_id_elem[i].value) for i in range(ds.nb_elements)]


# ----------------------------------------------------------------------------------------------------------------------
# per-case context set by common.run_check before every run: optional renaming of the elements (names that are hostile to any
# code that identifies an element or a ranking by its printed form) and an optional past of the dataset (algos.give_a_past).
# Datasets built through algos.mk and read through observe / id_order / algos.lst / algos.groups see the renaming in both
# directions, so that the model keeps working on the case's own integers.
CURRENT = {}
HOSTILE_NAMES = ["a", "b", "a}, {b", "a, b", "007", "-1", "x y", "[c]", "{d", "b}", "0x1f", "1e3", " "]
# ... or to integers that are hostile to code that uses an element's value as an index or stores it in a narrow type
HOSTILE_INTS = [-1, -2, -3, -7, -1000, 2 ** 31, 2 ** 31 + 5, 2 ** 40, 10 ** 6 + 3, 65536, 32768, 255, 0]


def fwd(e):
    m = CURRENT.get("_names")
    if not m:
        return e
    for k, v in m:
        if k == e:
            return v
    return e


def back(v):
    m = CURRENT.get("_names")
    if not m:
        return v
    for k, w in m:
        if w == v:
            return k
    return v


def decorate_cases(cases, rng, names_rate=0.0, past_rate=0.0):
    """give some cases hostile element names and / or a past (only cases with a dataset "D" over integers)"""
    out = []
    for c in cases:
        if not (isinstance(c, dict) and isinstance(c.get("D"), list)) or "_names" in c or "_past" in c:
            out.append(c)
            continue
        elems = sorted({e for r in c["D"] for b in r for e in b if isinstance(e, int)})
        all_int = all(isinstance(e, int) for r in c["D"] for b in r for e in b)
        # a candidate ranking of the case may hold elements the dataset does not have: they are renamed too (the renaming stays injective)
        if isinstance(c.get("c"), list) and all(isinstance(b, list) for b in c["c"]):
            all_int = all_int and all(isinstance(e, int) for b in c["c"] for e in b)
            elems = sorted(set(elems) | {e for b in c["c"] for e in b if isinstance(e, int)})
        c2 = c
        if all_int and elems and len(elems) <= len(HOSTILE_NAMES) and rng.random() < names_rate:
            c2 = dict(c2)
            if rng.random() < 0.35:
                names = rng.sample(HOSTILE_INTS, len(elems))        # all integers: the dataset stays integer-typed
            else:
                names = rng.sample(HOSTILE_NAMES, len(elems))
                if all(n.isdigit() for n in names):
                    names[0] = "a"
            c2["_names"] = [[e, n] for e, n in zip(elems, names)]
        if all_int and elems and rng.random() < past_rate:
            c2 = dict(c2)
            D = [[list(b) for b in r] for r in c2["D"]]
            for _ in range(rng.randint(1, 2)):
                D.insert(rng.randint(0, len(D)), [])
            c2["D"] = D
            c2["_past"] = {"remove": [], "rate": None, "remove_empty": True}
        out.append(c2)
    return out
