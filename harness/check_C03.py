"""C03 — every algorithm returns a well-formed consensus over exactly the universe."""
from common import *
import gen
from snap import *
from algos import *
from check_C16 import NAME_POOLS
from corankco.algorithms.bioconsert.bioconsert import BioConsert
from corankco.algorithms.bioconsert.bioco import BioCo
from corankco.algorithms.borda.borda import BordaCount
from corankco.algorithms.copeland.copeland import CopelandMethod
from corankco.algorithms.pickaperm.pickaperm import PickAPerm
from corankco.algorithms.kwiksort.kwiksortrandom import KwikSortRandom
from corankco.algorithms.parcons.parcons import ParCons
from corankco.algorithms.exact.exactalgorithm import ExactAlgorithm
from corankco.algorithms.exact.exactalgorithmpulp import ExactAlgorithmPulp
from corankco.algorithms.algorithm_choice import get_algorithm, Algorithm

CONFIGS = [
    (0, "ExactAlgorithm(optimize=True)", lambda: ExactAlgorithm(optimize=True)),
    (1, "ExactAlgorithm(optimize=False)", lambda: ExactAlgorithm(optimize=False)),
    (2, "ExactAlgorithmPulp", lambda: ExactAlgorithmPulp()),
    (3, "ParCons(bound=80)", lambda: ParCons(bound_for_exact=80)),
    (4, "ParCons(bound=0, aux=BioConsert)", lambda: ParCons(bound_for_exact=0)),
    (5, "ParCons(bound=1, aux=KwikSort)", lambda: ParCons(auxiliary_algorithm=KwikSortRandom(), bound_for_exact=1)),
    (6, "BioConsert()", lambda: BioConsert()),
    (7, "BioConsert(starters=[Copeland, KwikSort])", lambda: BioConsert(starting_algorithms=[CopelandMethod(), KwikSortRandom()])),
    (8, "BioCo", lambda: BioCo()),
    (9, "KwikSortRandom", lambda: KwikSortRandom()),
    (10, "BordaCount", lambda: BordaCount()),
    (11, "BordaCount(use_bucket_id)", lambda: BordaCount(use_bucket_id=True)),
    (12, "CopelandMethod", lambda: CopelandMethod()),
    (13, "PickAPerm", lambda: PickAPerm()),
    (14, "get_algorithm(PARCONS, bound 2)", lambda: get_algorithm(Algorithm.PARCONS, {"bound_for_exact": 2})),
]


def nondyadic_scheme(rng):
    """penalties that binary floating point does not represent exactly (0.3, 0.1, 1/3, 0.7): scores are sums with rounding noise.  Only the
    well-formedness of the answers is judged here, so the noise cannot matter to the verdict - it can matter to code that compares scores"""
    p = rng.choice([0.3, 0.1, 0.7, 1.0 / 3, 0.6])
    kind = rng.random()
    if kind < 0.4:
        return [[0.0, 1.0, p, 0.0, 1.0, p], [p, p, 0.0, p, p, 0.0]]           # unifying, p
    if kind < 0.6:
        return [[0.0, 1.0, p, 0.0, 0.0, 0.0], [p, p, 0.0, 0.0, 0.0, 0.0]]     # induced measure, p
    if kind < 0.8:
        return [[0.0, 1.0, p, 0.0, 1.0, 0.0], [p, p, 0.0, p, p, 0.0]]         # pseudo-distance, p
    return [[x * p for x in v] for v in gen.UNIFYING]                         # a scaled scheme


REFUSALS = ("ScoringSchemeNotHandledException", "InompleteRankingsIncompatibleWithScoringSchemeException", "IncompatibleArgumentsException")


def named_dataset(rng, nmax=6, mmax=4):
    pool = rng.choice(NAME_POOLS + [["a", "b", "c", "d", "e", "f"], [3, 1, 4, 15, 9, 2]])
    n = rng.randint(1, nmax)
    names = pool[:n]
    m = rng.randint(1, mmax)
    D = [gen.random_ranking(rng, names, rng.choice([1.0, 1.0, 0.7, 0.4]), rng.choice([1.0, 0.7, 0.4])) for _ in range(m)]
    if rng.random() < 0.2:
        D.append([])
    if rng.random() < 0.2 and any(D):
        D.append([list(b) for b in rng.choice([r for r in D if r])])     # duplicate ranking
    if not any(D):
        D[0] = [[names[0]]]
    return D


def digit_component_dataset(rng):
    """string-named dataset (at least one non-digit name) in which a strongly connected component consists of
    digit-like names only: its sub-problem, taken alone, would be an all-integer dataset"""
    letters = rng.sample(["a", "b", "zz"], rng.randint(1, 2))
    # half of the time the digit names are NOT in canonical form ("007", "010"): str(int(name)) != name
    digits = rng.sample(["1", "2", "3", "10", "20", "7"] if rng.random() < 0.5 else ["007", "010", "02", "0003", "9", "040"], rng.randint(3, 4))
    rots = [digits[i:] + digits[:i] for i in range(len(digits))]
    D = []
    for rot in rng.sample(rots, rng.randint(2, len(rots))):
        r = [[x] for x in letters if rng.random() < 0.9] + [[e] for e in rot]
        D.append(r)
    if rng.random() < 0.4:
        D.append([[x] for x in letters])
    rng.shuffle(D)
    return D


class WellFormed(Suite):
    bench_rate = 0.1
    scribbled_rate = 0.1     # share of the cases where the caller scribbled on what the read accessors returned (algos.scribble)
    seasoned_rate = 0.15     # share of the cases run on algorithm objects that have served before (algos.seasoned)
    name = "wellformed"
    imports = ["Parser", "DatasetModel", "Judge.JC16", "Judge.JC03"]
    judge = "judge_wf"
    ctype = "list name * list wf_run"

    def gen(self, tier, rng):
        cases = [{"s": gen.UNIFYING, "D": [[["only"]]], "one": True}, {"s": gen.UNIFYING, "D": [[[7]], []], "one": False}]
        for _ in range(25 if tier == "quick" else 300):
            cases.append({"s": rng.choice([gen.UNIFYING, gen.PSEUDO, gen.INDUCED, gen.GENERIC]), "D": digit_component_dataset(rng),
                          "one": rng.random() < 0.5})
        for _ in range(20 if tier == "quick" else 250):      # a member of a hard component never ranked with the others (ParCons sub-problems)
            cases.append({"s": rng.choice([gen.UNIFYING, gen.UNIFYING, gen.UNIFYING_HALF]), "D": isolated_member_dataset(rng), "one": rng.random() < 0.5})
        for _ in range(25 if tier == "quick" else 300):
            # a majority cycle (every rotation of an order, twice) and, listed FIRST, one ranking that runs against it: the element ids
            # (order of first appearance) are then numbered backwards along the cycle
            n = rng.randint(3, 4)
            base = rng.sample(["a", "b", "c", "d", "e"] if rng.random() < 0.5 else [1, 2, 3, 4, 5], n)
            rots = [base[i:] + base[:i] for i in range(n)]
            body = [[[e] for e in rot] for rot in rots + rots]
            rng.shuffle(body)
            D = [[[e] for e in reversed(rots[rng.randrange(n)])]] + body
            if rng.random() < 0.3:
                D.append([[base[0]], [base[1]]])
            cases.append({"s": rng.choice([gen.UNIFYING, gen.PSEUDO, gen.INDUCED, gen.UNIFYING_HALF, gen.GENERIC]), "D": D, "one": rng.random() < 0.5})
        for _ in range(20 if tier == "quick" else 250):
            # top-k lists: every ranking has the same NUMBER of elements, over different elements - incomplete although "all as large"
            pool = rng.choice([["a", "b", "c", "d", "e"], [1, 2, 3, 4, 5], ["1", "2", "3", "x", "y"]])
            k = rng.randint(1, 3)
            D = []
            for _ in range(rng.randint(2, 4)):
                els = rng.sample(pool, k)
                D.append(gen.random_ranking(rng, els, 1.0, rng.choice([1.0, 0.6])))
            if len({e for r in D for b in r for e in b}) == k:
                D.append([[e] for e in rng.sample([x for x in pool], k)])
            cases.append({"s": rng.choice([gen.UNIFYING, gen.UNIFYING, gen.UNIFYING_HALF, gen.INDUCED]), "D": D, "one": rng.random() < 0.5})
        for _ in range(40 if tier == "quick" else 500):
            D = named_dataset(rng, 5, 5) if rng.random() < 0.5 else gen.random_dataset(rng, 5, 6)
            cases.append({"s": nondyadic_scheme(rng), "D": D, "one": rng.random() < 0.5, "nondyadic": True})
        for _ in range(160 if tier == "quick" else 2500):
            cases.append({"s": rng.choice([gen.UNIFYING, gen.UNIFYING, gen.INDUCED, gen.PSEUDO, gen.EXTENDED, gen.GENERIC]),
                          "D": named_dataset(rng), "one": rng.random() < 0.5})
        return cases

    def run(self, case):
        import random
        random.seed(7)
        ds, sc = mk(case["D"], case["s"])
        out = {"U": [e.value for e in ds.universe], "runs": [], "refused": 0}
        for cid, name, mkalg in CONFIGS:
            try:
                alg = mkalg()
                if case.get("seasoned"):
                    seasoned(alg, case["D"], case["s"])
                cons = alg.compute_consensus_rankings(ds, sc, case["one"], True) if case.get("bench") else alg.compute_consensus_rankings(ds, sc, case["one"])
                out["runs"].append({"id": cid, "cons": [rsnap(r) for r in cons.consensus_rankings]})
            except Exception as e:
                if type(e).__name__ in REFUSALS:
                    out["refused"] += 1
                    continue
                out["runs"].append({"id": cid, "err": type(e).__name__ + ": " + str(e)[:80]})
        return out

    def term(self, case, out):
        runs = []
        for r in out["runs"]:
            if "err" in r:
                runs.append(f"(mkWF {nat(r['id'])} {cbool(case['one'])} [])")
            else:
                runs.append(f"(mkWF {nat(r['id'])} {cbool(case['one'])} {clist([rsnap_term(s) for s in r['cons']])})")
        return f"({names_term(out['U'])}, {clist(runs)})"

    def nontrivial(self, case, out):
        return len(out["U"]) >= 2

    def stats(self, case, out, acc):
        acc["runs"] = acc.get("runs", 0) + len(out["runs"])
        acc["refusals"] = acc.get("refusals", 0) + out["refused"]
        acc["exceptions"] = acc.get("exceptions", 0) + sum(1 for r in out["runs"] if "err" in r)
        acc["string_names"] = acc.get("string_names", 0) + int(any(isinstance(x, str) for x in out["U"]))
        acc["non_dyadic_penalties"] = acc.get("non_dyadic_penalties", 0) + int(bool(case.get("nondyadic")))
        acc["one_element"] = acc.get("one_element", 0) + int(len(out["U"]) == 1)
        acc["several_rankings_returned"] = acc.get("several_rankings_returned", 0) + sum(1 for r in out["runs"] if len(r.get("cons", [])) > 1)


if __name__ == "__main__":
    main("C03", [WellFormed()],
         level_note="see MANIFEST",
         rule="15 configurations (exact selector x2, free-solver model, ParCons x3 + through get_algorithm, BioConsert x2, BioCo, KwikSort, "
              "Borda x2, Copeland, PickAPerm) on datasets over 10 name pools (ints, hash-colliding ints, letters, digit strings, mixed "
              "int/str), incomplete, with ties, duplicated and empty rankings, one-element universes, 6 schemes, both values of "
              "return_at_most_one_ranking; documented refusals are skipped, any other exception is a failure. non-trivial = >= 2 elements")
