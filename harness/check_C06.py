"""C06 — ParCons: the partition admits an optimal consensus; the optimality flag is truthful."""
from common import *
import gen
from algos import *
from corankco.partitioning.ordered_partition import OrderedPartition
from corankco.algorithms.parcons.parcons import ParCons
from corankco.algorithms.bioconsert.bioconsert import BioConsert
from corankco.algorithms.kwiksort.kwiksortrandom import KwikSortRandom
from corankco.algorithms.copeland.copeland import CopelandMethod
from corankco.algorithms.borda.borda import BordaCount
from corankco.consensus import ConsensusFeature

import corankco.algorithms.parcons.parcons as parcons_module
from corankco.algorithms.rank_aggregation_algorithm import RankAggAlgorithm

MAXOPT = {"quick": 6, "thorough": 6}   # the brute-force optimum of 7 elements (7^7 position functions) costs ~15 s per case in vm_compute


class Recorder(RankAggAlgorithm):
    """wraps a sub-solver of ParCons and records every call: the sub-problem it received and what it returned"""

    def __init__(self, inner, is_aux, log):
        self.inner, self.is_aux, self.log = inner, is_aux, log

    def compute_consensus_rankings(self, dataset, scoring_scheme, return_at_most_one_ranking=True, bench_mode=False):
        res = self.inner.compute_consensus_rankings(dataset, scoring_scheme, return_at_most_one_ranking, bench_mode)
        self.log.append({"aux": self.is_aux, "D": [lst(r) for r in dataset.rankings], "res": lst(res.consensus_rankings[0])})
        return res

    def get_full_name(self):
        return self.inner.get_full_name()

    def is_scoring_scheme_relevant_when_incomplete_rankings(self, scoring_scheme):
        return self.inner.is_scoring_scheme_relevant_when_incomplete_rankings(scoring_scheme)


class ParConsSuite(Suite):
    scaled_rate = 0.12       # share of the cases where only the partition is computed, under the scheme times a power of two
    scribbled_rate = 0.1     # share of the cases where the caller scribbled on what the read accessors returned (algos.scribble)
    seasoned_rate = 0.1     # share of the cases run on algorithm objects that have served before (algos.seasoned)
    escalate_cap = 120
    names_rate, past_rate = 0.08, 0.06     # hostile element names / datasets with a past (gen.decorate_cases)
    name = "parcons"
    imports = ["Scheme", "Rank", "Partition", "ParConsProof", "Judge.JOpt"]
    judge = "judge_parcons"
    show = "show_parcons"

    def gen(self, tier, rng):
        self.tier = tier
        cases = []
        # F2 witness family and tiny exhaustive block
        cases.append({"s": gen.UNIFYING, "D": [[[3], [2], [1], [4]], [[1, 3, 4]], [[3, 4]], []]})
        prs = gen.all_partial_rankings([0, 1, 2])
        for _ in range(60 if tier == "quick" else 600):
            cases.append({"s": opt_scheme(rng), "D": [rng.choice(prs) or [[0]], rng.choice(prs), rng.choice(prs)]})
        for _ in range(40 if tier == "quick" else 600):
            cases.append({"s": p_scheme(rng), "D": cyclic_dataset(rng, 5 if tier == "quick" else 6)})
        for _ in range(90 if tier == "quick" else 1200):
            cases.append({"s": rng.choice([gen.UNIFYING, gen.UNIFYING, gen.EXTENDED, gen.UNIFYING_HALF, gen.GENERIC]),
                          "D": sparse_component_dataset(rng, 5 if tier == "quick" else 6)})
        for _ in range(30 if tier == "quick" else 300):     # a member of a component never ranked with the others
            cases.append({"s": rng.choice([gen.UNIFYING, gen.UNIFYING, gen.UNIFYING_HALF]), "D": isolated_member_dataset(rng)})
        for _ in range(6 if tier == "quick" else 40):       # two hard components of sizes 4 and 3 (no global brute force: 7 elements)
            cases.append({"s": rng.choice([gen.UNIFYING, gen.GENERIC, gen.EXTENDED]), "D": two_cycles_dataset(rng)})
        for _ in range(20 if tier == "quick" else 250):        # elements that can be tied two by two along a chain but not all together
            D, s = chain_tie_dataset(rng)
            cases.append({"s": s, "D": D})
        for _ in range(120 if tier == "quick" else 1200):      # four strict rankings: many pairs are evenly split (no arc either way)
            n = rng.choice([4, 5, 5, 5, 6]) if tier == "quick" else rng.randint(4, 6)
            D = []
            for _ in range(4):
                p = list(range(n))
                rng.shuffle(p)
                D.append([[e] for e in p])
            if rng.random() < 0.5:
                D[2] = [list(b) for b in D[1]]
            cases.append({"s": rng.choice([gen.UNIFYING, gen.UNIFYING, gen.PSEUDO, gen.GENERIC]), "D": D})
        for _ in range(160 if tier == "quick" else 2500):
            nmax = rng.choice([4, 5, 6, 6]) if tier == "quick" else rng.choice([5, 6, 6, 6])
            cases.append({"s": opt_scheme(rng), "D": layered_dataset(rng, nmax, 5) if rng.random() < 0.7 else gen.random_dataset(rng, nmax, 5)})
        return cases

    def run(self, case):
        import random
        random.seed(12345)
        ds, sc = mk(case["D"], case["s"])
        out = {"D": gen.observe(ds), "U": gen.id_order(ds), "P": groups(OrderedPartition.parcons_partition(ds, sc)), "runs": []}
        n = len(out["U"])
        if case.get("scale_exp") is not None:
            # the library was handed the scheme times a power of two (algos.mk): only the partition is observed (no solver, no local search:
            # their own numerical thresholds are not scale-free), and judged against the costs of the unscaled scheme
            return out
        for bound, aux in ((80, None), (0, None), (1, KwikSortRandom()), (2, BioConsert()), (3, CopelandMethod()), (2, BordaCount())):
            log = []
            alg = ParCons(auxiliary_algorithm=Recorder(aux if aux is not None else BioConsert(), True, log), bound_for_exact=bound)
            orig = parcons_module._exact_algorithm_for_sub_problems
            parcons_module._exact_algorithm_for_sub_problems = lambda: Recorder(orig(), False, log)
            try:
                if case.get("seasoned"):
                    seasoned(alg, case["D"], case["s"])
                    del log[:]
                cons = alg.compute_consensus_rankings(ds, sc, True)
                out["runs"].append({"bound": bound, "cons": lst(cons.consensus_rankings[0]), "n_cons": len(cons.consensus_rankings),
                                    "flag": bool(cons.necessarily_optimal), "weak": groups(cons.features[ConsensusFeature.WEAK_PARTITIONING]),
                                    "calls": log})
            except Exception as e:
                # Borda as auxiliary algorithm refuses most schemes on an incomplete sub-problem: a documented refusal, no run to judge
                # (C14 owns the refusals); whenever a consensus does come back it is judged like the others
                if not (isinstance(aux, BordaCount) and type(e).__name__ in ("ScoringSchemeNotHandledException",
                                                                             "InompleteRankingsIncompatibleWithScoringSchemeException")):
                    out["runs"].append({"bound": bound, "err": type(e).__name__ + ": " + str(e)[:80]})
            finally:
                parcons_module._exact_algorithm_for_sub_problems = orig
        return out

    def term(self, case, out):
        runs = []
        for r in out["runs"]:
            if "err" in r:
                # an exception where a consensus is due: encoded as an ill-formed run (empty consensus)
                runs.append(f"(mkPC {nat(r['bound'])} [] false [] [])")
            else:
                calls = clist([f"(mkCall {cbool(cl['aux'])} {dataset_term(cl['D'])} {ranking_term(cl['res'])})" for cl in r["calls"]])
                runs.append(f"(mkPC {nat(r['bound'])} {ranking_term(r['cons'])} {cbool(r['flag'])} {ranking_term(r['weak'])} {calls})")
        chk = len(out["U"]) <= MAXOPT[getattr(self, 'tier', 'quick')]
        return (f"(mkC06 {scheme_term(case['s'])} {dataset_term(out['D'])} {natlist(out['U'])} {ranking_term(out['P'])} "
                f"{clist(runs)} {cbool(chk)})")

    def nontrivial(self, case, out):
        return len(out["U"]) >= 3

    def stats(self, case, out, acc):
        acc[f"n={len(out['U'])}"] = acc.get(f"n={len(out['U'])}", 0) + 1
        acc[f"groups={len(out['P'])}"] = acc.get(f"groups={len(out['P'])}", 0) + 1
        acc["some_run_not_flagged_optimal"] = acc.get("some_run_not_flagged_optimal", 0) + int(any(not r.get("flag", True) for r in out["runs"]))
        acc["sub_solver_calls:exact"] = acc.get("sub_solver_calls:exact", 0) + sum(1 for r in out["runs"] for cl in r.get("calls", []) if not cl["aux"])
        acc["sub_solver_calls:aux"] = acc.get("sub_solver_calls:aux", 0) + sum(1 for r in out["runs"] for cl in r.get("calls", []) if cl["aux"])
        acc["exceptions"] = acc.get("exceptions", 0) + int(any("err" in r for r in out["runs"]))
        acc["ranking_missing_a_whole_group"] = acc.get("ranking_missing_a_whole_group", 0) + int(
            any(all(not (set(g) & {e for b in r for e in b}) for r in [rr]) for g in out["P"] for rr in out["D"] if len(out["P"]) > 1))
        s = case["s"]
        acc["B5!=T5"] = acc.get("B5!=T5", 0) + int(s[0][5] != s[1][5])

    def known(self, case, out):
        return None


if __name__ == "__main__":
    main("C06", [ParConsSuite()], gen_targets=['graph', 'step6'],
         level_note="the ILP solver (CBC through PuLP) and igraph's SCC routine are outside the model: their answers are judged per run "
                    "against the verified brute-force optimum (universes <= 6) and the verified no-back-arc test",
         rule="one F2 witness; sparse-component datasets (a component of 3-4 conflicting elements and 2-4 rankings ranking none of them, "
              "schemes with B5 != T5); 3-ranking datasets over {0,1,2}; layered datasets (several components, rankings missing whole layers, some "
              "rankings breaking the layering) and random datasets up to 6 elements; schemes biased to B5 != T5; four ParCons "
              "configurations per dataset (bound 80 / 0 / 1 with KwikSort / 2 with BioConsert). non-trivial = >= 3 elements")
