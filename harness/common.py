"""Shared machinery of the corankco verification checks.

A check = (1) proof stage: the Coq development builds, Props/<id>.v compiles, its axioms are
recorded; (2) correspondence stage: the hand-written Gallina model and the real library are run on
the same inputs, the comparison being evaluated *inside Coq* by vm_compute from generated case
files; (3) spec stage: the verified checker of the property is evaluated (in Coq) on the outputs of
the real library.  See /verif/DESIGN.md section 2.
"""
import concurrent.futures
import hashlib
import json
import os
import random
import re
import shutil
import signal
import threading
import subprocess
import sys
import time
import traceback

VERIF = os.path.dirname(os.path.dirname(os.path.abspath(__file__)))
REPO = os.environ.get("VERIF_REPO", "/repo")
COQDIR = os.environ.get("VERIF_COQDIR", os.path.join(VERIF, "coq"))   # a scratch copy can be used while developing proofs
REPLAYS = os.path.join(os.environ["VERIF_BUILD"], "replays") if os.environ.get("VERIF_BUILD") else os.path.join(VERIF, "replays")
BUILD = os.environ.get("VERIF_BUILD") or os.path.join(VERIF, "build")   # VERIF_BUILD: separate scratch area for parallel runs against scratch worktrees
ONE = 8000  # model units per 1.0 of the library
SHARD = 400
COQC_TIMEOUT = 900


# --------------------------------------------------------------------------------------------
# Coq term printers
# --------------------------------------------------------------------------------------------
def z(n):
    n = int(n)
    return f"({n})" if n < 0 else str(n)


def nat(n):
    n = int(n)
    assert n >= 0
    return f"{n}%nat"


def clist(items):
    return "[" + "; ".join(items) + "]"


def zlist(l):
    return clist([z(x) for x in l])


def natlist(l):
    return clist([nat(x) for x in l])


def cbool(b):
    return "true" if b else "false"


def copt(x, f):
    return "None" if x is None else f"(Some {f(x)})"


def ranking_term(r):
    """list of buckets of nat ids (bucket member order = the listing order given)"""
    return clist([natlist(b) for b in r])


def dataset_term(d):
    """list literal; long runs of one and the same ranking are written `repeat r k` (datasets with thousands of copies of a ranking)"""
    runs = []
    for r in d:
        if runs and runs[-1][0] == r:
            runs[-1][1] += 1
        else:
            runs.append([r, 1])
    if all(k < 50 for _, k in runs):
        return clist([ranking_term(r) for r in d])
    parts = []
    for r, k in runs:
        parts.append(f"(repeat {ranking_term(r)} {k}%nat)" if k >= 50 else clist([ranking_term(r)] * k))
    return "(" + " ++ ".join(parts) + ")%list"


def cstring(s):
    """Coq string literal (for ASCII strings)"""
    assert all(ord(c) < 128 for c in s)
    return '"' + s.replace('"', '""') + '"%string'


def to_units(x):
    """float/int penalty or score -> integer number of 1/ONE units; None when off-grid"""
    if isinstance(x, bool):
        x = int(x)
    if x is None:
        return None
    try:
        v = float(x) * ONE
    except (TypeError, ValueError):
        return None
    if v != v or v in (float("inf"), float("-inf")):
        return None
    r = round(v)
    # exact on dyadic penalties; a non-dyadic grid value (3999/8000 ...) and the float sums built from it are within
    # a few ulps of the grid point: 1e-7 unit = 1.25e-11, far below the 1e-6 of the properties
    if abs(v - r) > 1e-7:
        return None
    return int(r)


def scheme_term(pen):
    """pen: [[6 floats],[6 floats]] on the grid -> Coq scheme"""
    vals = [to_units(x) for x in pen[0]] + [to_units(x) for x in pen[1]]
    assert all(v is not None for v in vals), pen
    return "(mkS " + " ".join(z(v) for v in vals) + ")"


# --------------------------------------------------------------------------------------------
# running the implementation safely
# --------------------------------------------------------------------------------------------
class Hang(Exception):
    pass


def _alarm(signum, frame):
    raise Hang()


def with_timeout(fn, secs=5):
    """run fn() under SIGALRM (pure-Python loops only)"""
    old = signal.signal(signal.SIGALRM, _alarm)
    signal.setitimer(signal.ITIMER_REAL, secs)
    try:
        return fn()
    finally:
        signal.setitimer(signal.ITIMER_REAL, 0)
        signal.signal(signal.SIGALRM, old)


def exc_class(e):
    """map an exception to the small enum used by the models"""
    n = type(e).__name__
    table = {
        "InvalidScoringScheme": "InvalidScheme",
        "NonRealPositiveValuesScoringScheme": "NonRealPositive",
        "ForbiddenAssociationPenaltiesScoringScheme": "ForbiddenAssociation",
        "InvalidRankingsForComputingDistance": "InvalidRankings",
        "EmptyDatasetException": "EmptyDataset",
        "ScoringSchemeNotHandledException": "SchemeNotHandled",
        "InompleteRankingsIncompatibleWithScoringSchemeException": "IncompleteIncompatible",
        "IncompatibleArgumentsException": "IncompatibleArguments",
        "ValueError": "ValueError",
        "Hang": "Hang",
    }
    return table.get(n, "Other:" + n)


# --------------------------------------------------------------------------------------------
# suites
# --------------------------------------------------------------------------------------------
class Suite:
    """One family of cases with one Coq judge.

    judge : <case type> -> nat   0 = model agrees and spec holds, 1 = model disagrees (spec holds on
    the implementation's output), 2 = the implementation's output violates the property's spec
    (model agrees), 3 = both."""
    name = "suite"
    imports = []          # Coq modules (under Corankco) to import
    judge = "judge"        # name of the Coq judge function
    show = None            # optional Coq function case -> printable (the model's own output)
    scope = "Z_scope"
    informative = False    # True: a pure model disagreement is a note, not a failure
    ctype = None           # Coq type of one case (needed when it cannot be inferred from the literals)

    escalate_cap = 500     # how many further cases the default escalation may run

    def gen(self, tier, rng):
        raise NotImplementedError

    def escalate(self, tier, rng, disagreeing):
        """second round, only when the correspondence of this suite broke and no explored input violates the statement: by default a
        sample of the thorough tier's cases (a suite may override it with a search aimed at the disagreement)"""
        if tier != "quick":
            return []
        try:
            cases = list(self.gen("thorough", rng))
        except Exception:
            return []
        rng.shuffle(cases)
        return cases[:self.escalate_cap]

    def run(self, case):
        raise NotImplementedError

    def term(self, case, out):
        raise NotImplementedError

    def nontrivial(self, case, out):
        return True

    def known(self, case, out):
        """id of the known finding this (failing) case belongs to, or None"""
        return None

    def stats(self, case, out, acc):
        """accumulate input-distribution statistics into dict acc"""
        return


def coq_file(suite, terms, with_show=None):
    lines = ["From Corankco Require Import Prelude " + " ".join(suite.imports) + ".",
             "Require Import String.", f"Local Open Scope {suite.scope}.",
             ("Definition cases : list (%s) := [" % suite.ctype) if suite.ctype else "Definition cases := ["]
    lines.append(";\n".join(terms))
    lines.append("].")
    lines.append(f"Eval vm_compute in (map {suite.judge} cases).")
    if with_show:
        lines.append(f"Eval vm_compute in (map {with_show} cases).")
    return "\n".join(lines) + "\n"


def run_coqc(path, timeout=COQC_TIMEOUT):
    cmd = f"ulimit -s unlimited 2>/dev/null; exec timeout {timeout} coqc -Q {COQDIR}/theories Corankco -w none {path}"
    p = subprocess.run(["bash", "-c", cmd], capture_output=True, text=True, cwd=os.path.dirname(path))
    return p.returncode, p.stdout, p.stderr


_RES = re.compile(r"=\s*\[([0-9;\s]*)\]\s*:\s*list nat", re.S)
_NATSFX = re.compile(r"%nat")


def parse_codes(out):
    m = _RES.search(_NATSFX.sub("", out))
    if not m:
        return None
    body = m.group(1).strip()
    if not body:
        return []
    return [int(x) for x in body.replace("\n", " ").split(";")]


def evaluate_suite(prop, suite, cases_outs, workdir):
    """cases_outs: list of (case, out).  Returns list of codes (same length) or raises."""
    os.makedirs(workdir, exist_ok=True)
    terms = [suite.term(c, o) for c, o in cases_outs]
    shards = [terms[i:i + SHARD] for i in range(0, len(terms), SHARD)]
    paths = []
    for k, sh in enumerate(shards):
        path = os.path.join(workdir, f"{prop}_{suite.name}_{k}.v")
        with open(path, "w") as f:
            f.write(coq_file(suite, sh))
        paths.append(path)
    codes = []
    errors = []
    with concurrent.futures.ThreadPoolExecutor(max_workers=min(16, max(1, len(paths)))) as ex:
        results = list(ex.map(run_coqc, paths))
    for path, sh, (rc, out, err) in zip(paths, shards, results):
        cs = parse_codes(out) if rc == 0 else None
        if cs is None or len(cs) != len(sh):
            errors.append((path, rc, (out + err)[-2000:]))
            codes.extend([None] * len(sh))
        else:
            codes.extend(cs)
    return codes, errors


def show_case(prop, suite, case, out, workdir):
    """raw text of the model's own answer for one case (for replay files)"""
    if not suite.show:
        return None
    path = os.path.join(workdir, f"{prop}_{suite.name}_show.v")
    with open(path, "w") as f:
        f.write(coq_file(suite, [suite.term(case, out)], with_show=suite.show))
    rc, o, e = run_coqc(path, 300)
    return (o + e).strip()[-4000:]


# --------------------------------------------------------------------------------------------
# proof stage
# --------------------------------------------------------------------------------------------
FORBIDDEN = re.compile(r"\b(Admitted|admit|Axiom|Axioms|Parameter|Parameters|Conjecture|Conjectures|Hypothesis|Hypotheses|Variable|Variables)\b|Unset\s+Guard|bypass_check|type-in-type|impredicative-set|Admit\s+Obligations")


def strip_comments(src):
    out = []
    depth = 0
    i = 0
    while i < len(src):
        if src.startswith("(*", i):
            depth += 1
            i += 2
        elif src.startswith("*)", i) and depth > 0:
            depth -= 1
            i += 2
        else:
            if depth == 0:
                out.append(src[i])
            i += 1
    return "".join(out)


def grep_gate():
    """no Admitted/admit/Axiom/...; Variable/Hypothesis only inside a Section"""
    bad = []
    walks = list(os.walk(os.path.join(COQDIR, "theories"))) + list(os.walk(os.path.join(COQDIR, "gen_equiv"))) \
        + list(os.walk(os.path.join(BUILD, "gen")))
    for root, _, files in walks:
        for fn in files:
            if not fn.endswith(".v"):
                continue
            path = os.path.join(root, fn)
            src = strip_comments(open(path).read())
            depth = 0
            for ln, line in enumerate(src.split("\n"), 1):
                if re.match(r"\s*Section\b", line):
                    depth += 1
                if re.match(r"\s*End\b", line) and depth > 0:
                    depth -= 1
                for m in FORBIDDEN.finditer(line):
                    w = m.group(0)
                    if w.split()[0] in ("Variable", "Variables", "Hypothesis", "Hypotheses") and depth > 0:
                        continue
                    bad.append(f"{path}:{ln}: {w}")
    return bad


def proof_stage(prop):
    """returns dict(ok, obligations, discharged, axioms, detail)"""
    t0 = time.time()
    res = {"ok": False, "obligations": 0, "discharged": 0, "axioms": [], "detail": "", "theorems": []}
    props_file = os.path.join(COQDIR, "theories", "Props", f"{prop}.v")
    if not os.path.exists(props_file):
        res["detail"] = "no Props file"
        return res
    src = strip_comments(open(props_file).read())
    theorems = re.findall(r"^\s*Theorem\s+(\w+)", src, re.M)
    res["obligations"] = len(theorems)
    res["theorems"] = theorems
    bad = grep_gate()
    if bad:
        res["detail"] = "forbidden constructs: " + "; ".join(bad[:10])
        return res
    if not os.path.exists(os.path.join(COQDIR, "Makefile")):
        subprocess.run("coq_makefile -f _CoqProject -o Makefile", shell=True, cwd=COQDIR, capture_output=True)
    p = subprocess.run(f"timeout 3000 make -k -j16 2>&1 | tail -40", shell=True, cwd=COQDIR, capture_output=True, text=True)
    rc, out, err = run_coqc(props_file, 1200)
    # coqc leaves .vo/.glob next to the source; harmless (same as make)
    if rc != 0:
        res["detail"] = "Props file does not compile: " + (out + err)[-1500:] + "\nmake: " + p.stdout[-1500:]
        # count theorems that were accepted before the failure
        return res
    blocks = re.split(r"\n(?=Closed under the global context|Axioms:)", "\n" + out)
    closed = out.count("Closed under the global context")
    axioms = []
    # an axiom's name starts its line; the continuation lines of its type are indented
    in_ax = False
    for line in out.split("\n"):
        if line.startswith("Axioms:"):
            in_ax = True
            continue
        if line.startswith("Closed under the global context") or (in_ax and line.strip() == ""):
            in_ax = False
            continue
        if in_ax:
            m = re.match(r"^([A-Za-z_][\w.']*)\s*(:|$)", line)
            if m:
                axioms.append(m.group(1))
    n_print = closed + out.count("Axioms:")
    res["axioms"] = sorted(set(axioms))
    res["discharged"] = len(theorems) if n_print >= len(theorems) else n_print
    res["ok"] = res["discharged"] == res["obligations"] and res["obligations"] > 0
    res["detail"] = f"{closed} closed under the global context, axioms: {sorted(set(axioms))}"
    res["wall_s"] = round(time.time() - t0, 1)
    return res


_CRUMB = os.environ.get("VERIF_BREADCRUMB")


class CaseTimeout(Exception):
    pass


def _emergency_report(prop, suite_name, case, seed, limit):
    """last resort (called from a watchdog thread): the case neither returned nor could be interrupted"""
    try:
        os.makedirs(os.path.join(REPLAYS, prop), exist_ok=True)
        path = os.path.join(REPLAYS, prop, f"{seed}-hang.json")
        with open(path, "w") as f:
            json.dump({"property": prop, "kind": "spec", "suite": suite_name, "case": case,
                       "observed": {"harness_exception": "NoAnswerWithinTimeLimit",
                                    "trace": f"no answer within {limit} s and the computation could not be interrupted (native code)"},
                       "rerun": f"./check {prop} --replay {path}"}, f, indent=1, default=str)
        print(f"VIOLATION property={prop} replay={path}", flush=True)
    finally:
        os._exit(1)


def _on_alarm(signum, frame):
    raise CaseTimeout()


def gen_stage(prop, targets):
    """translation tie (tools/py2coq.py): regenerate the Gallina text of a few decision kernels from the CURRENT source of
    VERIF_REPO and re-check the hand-written equivalence lemmas (coq/gen_equiv/Equiv_<t>.v) against it.
    Two ways for the tie to be missing on a tree, treated differently (DESIGN.md 2.6b):
      * the source of a kernel is outside the translator's subset (fail-closed `Unsupported`): the tie is UNAVAILABLE for that kernel;
        the property is then decided by the hand-written model + correspondence alone, as it is for all the code that is
        not translated - a note, not a violation;
      * the kernel is translated but Coq no longer proves it equal to the model's definition: a broken proof obligation -
        a violation (with `no-failing-input-found` when the correspondence run finds no failing input).
    returns dict(ok, targets, detail, lemmas, unavailable)"""
    res = {"ok": True, "targets": list(targets), "detail": "", "lemmas": 0, "unavailable": []}
    if not targets:
        return res
    gdir = os.path.join(BUILD, "gen", prop)
    shutil.rmtree(gdir, ignore_errors=True)
    os.makedirs(gdir, exist_ok=True)
    repo = os.environ.get("VERIF_REPO", "/repo")
    p = subprocess.run(["/venv/bin/python", os.path.join(VERIF, "tools", "py2coq.py"), repo, gdir] + list(targets),
                       capture_output=True, text=True)
    details = []
    said = {}
    for line in (p.stdout + p.stderr).splitlines():
        m = re.match(r"py2coq: (\w+): NOT TRANSLATABLE: (.*)", line)
        if m:
            said[m.group(1)] = m.group(2)
    for t in targets:
        gen = os.path.join(gdir, f"Gen_{t}.v")
        if not os.path.exists(gen):
            if t in said:
                res["unavailable"].append({"kernel": t, "why": said[t][:300]})
            else:     # the translator itself failed in an unexpected way: that is a broken tool, not a property of the source
                res["ok"] = False
                details.append(f"translator crashed on {t}: " + (p.stdout + p.stderr).strip()[-900:])
            continue
        eq_src = os.path.join(COQDIR, "gen_equiv", f"Equiv_{t}.v")
        eq = os.path.join(gdir, f"Equiv_{t}.v")
        shutil.copy(eq_src, eq)
        for f in (gen, eq):
            cmd = f"cd {gdir} && timeout 600 coqc -Q {COQDIR}/theories Corankco -Q {gdir} CorankcoGen {os.path.basename(f)}"
            q = subprocess.run(cmd, shell=True, capture_output=True, text=True)
            if q.returncode != 0:
                res["ok"] = False
                details.append(f"{os.path.basename(f)}: the kernel translated from the current source is no longer the model's: "
                               + (q.stdout + q.stderr).strip()[-900:])
                break
        else:
            res["lemmas"] += len(re.findall(r"^Theorem\s", open(eq_src).read(), re.M))
    res["detail"] = " | ".join(details)
    return res


# --------------------------------------------------------------------------------------------
# known findings, evidence, verdict
# --------------------------------------------------------------------------------------------
def load_known():
    path = os.path.join(VERIF, "known_findings.json")
    if not os.path.exists(path):
        return {}
    data = json.load(open(path))
    return {e["id"]: e for e in data.get("findings", []) if e.get("status") == "known"}


def canon_hash(obj):
    return hashlib.sha1(json.dumps(obj, sort_keys=True, default=str).encode()).hexdigest()


def run_check(prop, suites, tier, seed, level_note, trusted_extra=(), replay=None, rule="", gen_targets=()):
    """drive a whole check; returns exit code"""
    t0 = time.time()
    rng = random.Random(seed)
    workdir = os.path.join(BUILD, "cases", prop)
    shutil.rmtree(workdir, ignore_errors=True)
    os.makedirs(workdir, exist_ok=True)
    os.makedirs(os.path.join(VERIF, "evidence"), exist_ok=True)
    os.makedirs(os.path.join(REPLAYS, prop), exist_ok=True)
    known = load_known()
    violations = []       # (kind, suite, case, out, extra)
    known_hits = {}
    notes = []
    proof = proof_stage(prop)
    if not proof["ok"]:
        violations.append(("proof", None, None, None, proof["detail"]))
    gen = gen_stage(prop, gen_targets) if replay is None else {"ok": True, "targets": [], "detail": "", "lemmas": 0, "unavailable": []}
    if not gen["ok"]:
        violations.append(("translation", None, None, None, gen["detail"]))
    for u in gen["unavailable"]:
        msg = (f"translation tie unavailable for kernel {u['kernel']} on this tree (source outside the translator's subset: {u['why']}); "
               f"the property is decided by the hand-written model + correspondence alone on this run")
        notes.append(msg)
        print(f"NOTE property={prop} {msg}")
    total = 0
    distinct = set()
    samples = []
    per_suite = {}
    stats = {}
    exhaustive = True
    for suite in suites:
        ts = time.time()
        acc = {}
        if replay is not None:
            if replay.get("suite") != suite.name:
                continue
            cases = [replay["case"]]
        else:
            corpus = load_corpus(prop, suite.name)
            cases = corpus + list(suite.gen(tier, rng))
            if getattr(suite, "names_rate", 0) or getattr(suite, "past_rate", 0):
                import gen as _gen
                cases = _gen.decorate_cases(cases, rng, getattr(suite, "names_rate", 0), getattr(suite, "past_rate", 0))
            for flag in ("scribbled", "bench"):
                # scribbled: the caller emptied / overwrote the objects the read accessors gave it (algos.scribble) before the judged call;
                # bench: the judged call is made with bench_mode=True (same answer expected)
                rate = getattr(suite, flag + "_rate", 0)
                if rate:
                    r3 = random.Random(f"{seed}:{suite.name}:{flag}")
                    cases = [dict(c, **{flag: True}) if isinstance(c, dict) and flag not in c and r3.random() < rate else c for c in cases]
            if getattr(suite, "scaled_rate", 0):
                # the library is handed the scheme multiplied by a power of two (exact in binary floating point) - tiny or large - while
                # the model keeps the scheme of the case: orders, ties, partitions and refusals do not depend on a common positive factor
                r4 = random.Random(f"{seed}:{suite.name}:scaled")
                cases = [dict(c, scale_exp=r4.choice([-24, -30, -17, 20])) if isinstance(c, dict) and "scale_exp" not in c
                         and r4.random() < suite.scaled_rate else c for c in cases]
            if getattr(suite, "seasoned_rate", 0):
                # a share of the cases make the judged call on algorithm objects that have served before (algos.seasoned); the flags are
                # drawn from a generator of their own so that the cases themselves do not depend on the rate
                r2 = random.Random(f"{seed}:{suite.name}:seasoned")
                cases = [dict(c, seasoned=True) if isinstance(c, dict) and "seasoned" not in c and r2.random() < suite.seasoned_rate else c
                         for c in cases]
        all_cases = list(cases)
        nm_total = ns_total = ncases = ncrashed = ntimeouts_total = 0
        escalated = 0
        disagreeing = []
        cos = []
        for rnd in (0, 1):
            if rnd == 1:
                # a broken correspondence with no failing input so far: search harder before reporting `no-failing-input-found`
                # (the suite proposes further inputs around the disagreement, pre-filtered by an untrusted heuristic; the verdict on
                # each is still the Coq judge's)
                if os.environ.get("VERIF_DEBUG"):
                    print("   (escalation test:", replay is None, nm_total, ns_total, hasattr(suite, "escalate"), ")")
                if not (replay is None and nm_total > 0 and ns_total == 0 and hasattr(suite, "escalate")):
                    break
                cases = list(suite.escalate(tier, rng, disagreeing))
                escalated = len(cases)
                if not cases:
                    break
            cos = []
            crashed = []
            n_timeouts = 0
            for c in cases:
                if n_timeouts >= 3:
                    notes.append(f"{suite.name}: three cases did not return within the time limit - the remaining cases of the suite were not run")
                    break
                try:
                    import gen as _gen
                    _gen.CURRENT = c if isinstance(c, dict) else {}
                    # a case that does not come back (a loop that never ends in the library) is a violation with the input as replay,
                    # not a check that hangs
                    limit = int(getattr(suite, "case_timeout", 120))
                    if _CRUMB and getattr(suite, "breadcrumbs", True):
                        with open(_CRUMB, "w") as _f:
                            json.dump({"suite": suite.name, "case": c, "phase": "case", "limit": limit}, _f, default=str)
                    signal.signal(signal.SIGALRM, _on_alarm)
                    signal.alarm(limit)
                    # the alarm cannot interrupt native code (a jitted loop that never ends): a watchdog thread then reports the
                    # case itself and ends the process
                    dog = threading.Timer(limit + 45, _emergency_report, args=(prop, suite.name, c, seed, limit))
                    dog.daemon = True
                    dog.start()
                    try:
                        o = suite.run(c)
                    finally:
                        signal.alarm(0)
                        dog.cancel()
                except CaseTimeout:
                    o = {"harness_exception": "NoAnswerWithinTimeLimit", "trace": f"no answer within {getattr(suite, 'case_timeout', 120)} s"}
                    n_timeouts += 1
                except Exception as e:  # the runner itself must not raise: that is a harness/impl surprise
                    o = {"harness_exception": exc_class(e), "trace": traceback.format_exc()[-800:]}
                if isinstance(o, dict) and "harness_exception" in o:
                    # the library raised where every modelled run returns a value or one of the documented exceptions that
                    # the runner maps itself: the property cannot hold on this input as stated -> a violation with the
                    # input as replay (never passed to Coq: the judges have no encoding for it)
                    crashed.append((c, o))
                    continue
                try:
                    # what the library returned must be encodable for the judge: an output the harness cannot even describe (a missing
                    # field, a value of an unexpected kind) is reported like an unexpected exception, with the input as replay
                    suite.term(c, o)
                    suite.stats(c, o, acc)
                    nt = suite.nontrivial(c, o)
                except Exception as e:
                    crashed.append((c, {"harness_exception": "UnencodableOutput:" + exc_class(e), "trace": traceback.format_exc()[-800:],
                                        "observed": o if isinstance(o, (dict, list, str, int, float)) else repr(o)[:500]}))
                    continue
                cos.append((c, o))
                if nt:
                    distinct.add(canon_hash([suite.name, c]))
            if _CRUMB:
                try:
                    with open(_CRUMB, "w") as _f:      # no case is being run any more (the supervisor must not take what follows for a stall)
                        json.dump({"suite": suite.name, "phase": "evaluating"}, _f)
                except Exception:
                    pass
            total += len(cos) + len(crashed)
            for c, o in crashed:
                violations.append(("spec", suite, c, o, None))
            if not getattr(suite, "exhaustive", False):
                exhaustive = False
            codes, errors = evaluate_suite(prop, suite, cos, workdir) if cos else ([], [])
            for path, rc, txt in errors:
                violations.append(("coq-eval", suite, None, None, f"{path} rc={rc}: {txt}"))
            nm = ns = 0
            for (c, o), code in zip(cos, codes):
                if code is None or code == 0:
                    continue
                if code in (1, 3):
                    disagreeing.append(c)
                if code in (2, 3):
                    ns += 1
                    kid = suite.known(c, o)
                    if kid and kid in known:
                        known_hits.setdefault(kid, 0)
                        known_hits[kid] += 1
                        continue
                    violations.append(("spec", suite, c, o, None))
                elif code == 1:
                    nm += 1
                    if suite.informative:
                        notes.append(f"{suite.name}: model/implementation disagreement on an informative unit-level case")
                    else:
                        violations.append(("corr", suite, c, o, None))
            nm_total += nm
            ns_total += ns + len(crashed)
            ncases += len(cos) + len(crashed)
            ncrashed += len(crashed)
            ntimeouts_total += n_timeouts
        nm, ns = nm_total, ns_total
        if cos and len(samples) < 6:
            samples.append({"suite": suite.name, "case": cos[len(cos) // 2][0], "observed": cos[len(cos) // 2][1]})
        per_suite[suite.name] = {"cases": ncases, "unexpected_exceptions": ncrashed, "no_answer_within_time_limit": ntimeouts_total,
                                 "model_disagreements": nm, "spec_failures": ns,
                                 "wall_s": round(time.time() - ts, 1)}
        if escalated:
            per_suite[suite.name]["escalated_search_cases"] = escalated
        if replay is None and (getattr(suite, "names_rate", 0) or getattr(suite, "past_rate", 0)):
            per_suite[suite.name]["cases_with_hostile_names"] = sum(1 for c in all_cases if isinstance(c, dict) and "_names" in c)
            per_suite[suite.name]["cases_with_a_past"] = sum(1 for c in all_cases if isinstance(c, dict) and "_past" in c)
        if replay is None and getattr(suite, "scaled_rate", 0):
            per_suite[suite.name]["cases_with_scaled_scheme"] = sum(1 for c in all_cases if isinstance(c, dict) and "scale_exp" in c)
        for flag in ("scribbled", "bench"):
            if replay is None and getattr(suite, flag + "_rate", 0):
                per_suite[suite.name]["cases_" + flag] = sum(1 for c in all_cases if isinstance(c, dict) and c.get(flag))
        if replay is None and getattr(suite, "seasoned_rate", 0):
            per_suite[suite.name]["cases_with_seasoned_algorithm_objects"] = sum(1 for c in all_cases if isinstance(c, dict) and c.get("seasoned"))
        if acc:
            stats[suite.name] = acc
    # ---- verdict
    rc = 0
    for kid, n in sorted(known_hits.items()):
        print(f"KNOWN-FINDING: property={prop} {kid}: {known[kid].get('what', '')} ({n} cases)")
    reported = 0
    if violations:
        rc = 1
        spec_v = [v for v in violations if v[0] == "spec"]
        other_v = [v for v in violations if v[0] != "spec"]
        chosen = (spec_v[:3] if spec_v else []) + ([] if spec_v else other_v[:3])
        for k, (kind, suite, c, o, extra) in enumerate(chosen):
            path = os.path.join(REPLAYS, prop, f"{seed}-{k}.json")
            rep = {"property": prop, "kind": kind, "seed": seed, "tier": tier}
            if suite is not None:
                rep["suite"] = suite.name
            if c is not None:
                rep["case"] = c
                rep["observed"] = o
                try:
                    rep["model_says"] = show_case(prop, suite, c, o, workdir)
                except Exception:
                    pass
                rep["rerun"] = f"./check {prop} --replay {path}"
            if kind == "proof":
                rep["broken"] = f"theorems of coq/theories/Props/{prop}.v: {proof['theorems']}"
                rep["detail"] = extra
            if kind == "translation":
                rep["broken"] = ("translation tie: the Gallina text generated by tools/py2coq.py from the current source is not "
                                 "provably the model's any more (coq/gen_equiv/Equiv_*.v), or the source is no longer translatable")
                rep["detail"] = extra
            if kind == "coq-eval":
                rep["broken"] = "evaluation of the correspondence case file failed"
                rep["detail"] = extra
            if kind == "corr":
                rep["broken"] = f"correspondence {suite.name}: model function {suite.judge} disagrees with the implementation; " \
                                f"no property-violating input found among {total} cases"
            with open(path, "w") as f:
                json.dump(rep, f, indent=1, default=str)
            tail = "" if kind == "spec" else " no-failing-input-found"
            print(f"VIOLATION property={prop} replay={path}{tail}")
            reported += 1
    ev = {
        "property_id": prop, "tier": tier, "seed": seed, "level": "proof",
        "coverage": {
            "obligations": proof["obligations"], "discharged": proof["discharged"],
            "checker_cmd": f"make -C /verif/coq && coqc -Q /verif/coq/theories Corankco /verif/coq/theories/Props/{prop}.v  (then ./check {prop})",
            "trusted_base": ["Coq 8.16.1 kernel incl. vm_compute",
                             "axioms reported by Print Assumptions on this run: " + (", ".join(proof["axioms"]) or "none (closed under the global context)"),
                             "hand-written Gallina model coq/theories/*.v and the statement of Props/%s.v" % prop,
                             "correspondence harness harness/common.py + harness/check_%s.py (generators, canonicalisation)" % prop,
                             "translator tools/py2coq.py (python ast -> Gallina, fail-closed) for the kernels listed under translation_tie",
                             "IEEE-754 exactness on the 1/8000 dyadic grid"] + list(trusted_extra),
            "theorems": proof["theorems"],
            "translation_tie": {"kernels_regenerated_from_source": gen["targets"], "equivalence_lemmas_rechecked": gen["lemmas"],
                                "ok": gen["ok"], "unavailable_on_this_tree": gen["unavailable"]},
            "evaluations": total, "distinct_nontrivial": len(distinct),
            "rule": rule, "samples": samples, "per_suite": per_suite, "input_distribution": stats,
            "exhaustive": bool(exhaustive and total > 0),
            "notes": notes[:10], "known_findings_hit": known_hits,
        },
        "assumptions": [level_note],
        "wall_s": round(time.time() - t0, 1),
        "violations": len(violations),
    }
    if replay is None:
        # evidence describes /repo itself; a run against a scratch copy (mutant trials) is kept apart
        evdir = os.path.join(VERIF, "evidence") if os.path.realpath(os.environ.get("VERIF_REPO", "/repo")) == "/repo" \
            else os.path.join(BUILD, "scratch_evidence")
        os.makedirs(evdir, exist_ok=True)
        with open(os.path.join(evdir, f"{prop}.json"), "w") as f:
            json.dump(ev, f, indent=1, default=str)
    print(f"[{prop}] tier={tier} seed={seed} proof={proof['discharged']}/{proof['obligations']} "
          f"cases={total} distinct_nontrivial={len(distinct)} violations={len(violations)} "
          f"wall={ev['wall_s']}s")
    for name, d in per_suite.items():
        print(f"   {name}: {d}")
    return rc


def load_corpus(prop, suite_name):
    d = os.path.join(VERIF, "corpus", prop)
    out = []
    if os.path.isdir(d):
        for fn in sorted(os.listdir(d)):
            if fn.endswith(".json"):
                e = json.load(open(os.path.join(d, fn)))
                if e.get("suite") == suite_name:
                    out.append(e["case"])
    return out


def main(prop, suites, level_note, trusted_extra=(), rule="", gen_targets=()):
    import argparse
    ap = argparse.ArgumentParser()
    ap.add_argument("--tier", default=os.environ.get("VERIF_TIER", "quick"))
    ap.add_argument("--replay", default=None)
    a = ap.parse_args()
    seed = int(os.environ.get("VERIF_SEED", "20260930"))
    if os.environ.get("VERIF_CHILD") != "1":
        # supervisor: the check proper runs in a child process. If the child dies without a verdict (the library corrupted memory,
        # the interpreter was killed: nothing Python can catch), the case it was running is reported with its input as replay
        os.makedirs(BUILD, exist_ok=True)
        crumb = os.path.join(BUILD, f"breadcrumb_{prop}.json")
        if os.path.exists(crumb):
            os.remove(crumb)
        env = dict(os.environ, VERIF_CHILD="1", VERIF_BREADCRUMB=crumb)
        p = subprocess.Popen([sys.executable, "-u"] + sys.argv, env=env, stdout=subprocess.PIPE, stderr=subprocess.STDOUT, text=True)
        state = {"verdict": False}

        def forward():
            for line in p.stdout:
                sys.stdout.write(line)
                sys.stdout.flush()
                if line.startswith(f"[{prop}] tier=") or line.startswith("VIOLATION property="):
                    state["verdict"] = True
        reader = threading.Thread(target=forward, daemon=True)
        reader.start()
        stalled = False
        while p.poll() is None:
            time.sleep(2)
            # a case that never comes back from native code (a jitted loop that does not end holds the interpreter lock: neither the
            # alarm nor a watchdog thread of the child can run): the child is killed from here and the case is the replay
            try:
                info_now = json.load(open(crumb))
                age = time.time() - os.path.getmtime(crumb)
            except Exception:
                continue
            if info_now.get("phase") == "case" and age > float(info_now.get("limit", 120)) + 90:
                stalled = True
                p.kill()
                break
        rc = p.wait()
        reader.join(timeout=10)
        verdict = state["verdict"]
        if not stalled and rc in (0, 1) and (verdict or rc == 0):
            sys.exit(rc)
        os.makedirs(os.path.join(REPLAYS, prop), exist_ok=True)
        path = os.path.join(REPLAYS, prop, f"{seed}-died.json")
        info = {}
        try:
            info = json.load(open(crumb))
        except Exception:
            pass
        with open(path, "w") as f:
            json.dump({"property": prop, "kind": "spec" if info else "harness", "suite": info.get("suite"), "case": info.get("case"),
                       "observed": ({"harness_exception": "NoAnswerWithinTimeLimit", "trace": "the case did not come back (stuck in native code): the "
                                     f"checking process was killed {int(info.get('limit', 120)) + 90} s after it started the case"} if stalled else
                                    {"harness_exception": "ProcessDied", "trace": f"the checking process ended with status {rc} without a verdict"
                                     + (" while running this case" if info else " before any case was run")}),
                       "rerun": f"./check {prop} --replay {path}"}, f, indent=1, default=str)
        print(f"VIOLATION property={prop} replay={path}" + ("" if info else " no-failing-input-found"))
        sys.exit(1)
    replay = json.load(open(a.replay)) if a.replay else None
    tier = a.tier if a.tier in ("quick", "thorough") else "quick"
    sys.exit(run_check(prop, suites, tier, seed, level_note, trusted_extra, replay, rule, gen_targets))
