"""Snapshots of Ranking / Dataset objects through their public accessors, as Coq terms."""
from common import *


def name_term(v):
    if isinstance(v, bool):
        raise ValueError("bool name")
    if isinstance(v, int):
        return f"(NInt {z(v)})"
    assert all(ord(c) < 128 for c in v), v
    return f"(NS {natlist([ord(c) for c in v])})"


def names_term(l):
    return clist([name_term(x) for x in l])


def nranking_term(r):
    return clist([names_term(b) for b in r])


def nrankings_term(rs):
    return clist([nranking_term(r) for r in rs])


def listing(r):
    return [[e.value for e in b] for b in r.buckets]


def rsnap(r):
    return {"buckets": listing(r), "positions": [[e.value, int(p)] for e, p in r.positions.items()],
            "domain": [e.value for e in r.domain], "nb": int(r.nb_elements), "len": len(r)}


def rsnap_term(s):
    pos = clist([f"({name_term(e)}, {z(p)})" for e, p in s["positions"]])
    return f"(mkRS {nranking_term(s['buckets'])} {pos} {names_term(s['domain'])} {z(s['nb'])} {z(s['len'])})"


def dsnap(ds):
    return {"rankings": [rsnap(r) for r in ds.rankings],
            "e2i": [[e.value, int(i)] for e, i in ds.mapping_elem_id.items()],
            "i2e": [[int(i), e.value] for i, e in ds.mapping_id_elem.items()],
            "nb_elements": int(ds.nb_elements), "nb_rankings": int(ds.nb_rankings),
            "complete": bool(ds.is_complete), "noties": bool(ds.without_ties),
            "universe": [e.value for e in ds.universe],
            "P": ds.get_positions().tolist(), "B": ds.get_bucket_ids().tolist()}


def dsnap_term(s):
    e2i = clist([f"({name_term(e)}, {z(i)})" for e, i in s["e2i"]])
    i2e = clist([f"({z(i)}, {name_term(e)})" for i, e in s["i2e"]])
    P = clist([zlist(r) for r in s["P"]])
    B = clist([zlist(r) for r in s["B"]])
    return (f"(mkDS {clist([rsnap_term(r) for r in s['rankings']])} {e2i} {i2e} {z(s['nb_elements'])} {z(s['nb_rankings'])} "
            f"{cbool(s['complete'])} {cbool(s['noties'])} {names_term(s['universe'])} {P} {B})")
