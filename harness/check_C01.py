"""C01 — Kemeny score = generalized pairwise-penalty definition."""
from common import *
import gen
from corankco.dataset import Dataset
from corankco.ranking import Ranking
from corankco.scoringscheme import ScoringScheme
from corankco.kemeny_score_computation import KemenyComputingFactory


def make(case):
    # gen.fwd / gen.back: the case may rename its integers (gen.decorate_cases); the model keeps working on the case's own integers
    ds = Dataset.from_raw_list([[{gen.fwd(e) for e in b} for b in r] for r in case["D"]])
    cand = Ranking([{gen.fwd(e) for e in b} for b in case["c"]])
    return ds, cand


def cand_listing(cand):
    return [[gen.back(e.value) for e in b] for b in cand.buckets]


def derived_scheme(s):
    """the scheme of the case obtained as 2 * (a scheme that has already been used to compute a score), when halving is exact"""
    half = [[x / 2 for x in s[0]], [x / 2 for x in s[1]]]
    if [[x * 2 for x in half[0]], [x * 2 for x in half[1]]] != [list(map(float, s[0])), list(map(float, s[1]))]:
        return None
    base = ScoringScheme(half)
    KemenyComputingFactory(base).get_kemeny_score(Ranking([{1}, {2, 3}]), Dataset.from_raw_list([[{1}, {2}], [{3}, {2}, {1}]]))
    return base


class Kemeny(Suite):
    names_rate = 0.12        # hostile element names, strings or integers (gen.decorate_cases)
    name = "kemeny"
    imports = ["Scheme", "Rank", "KemenyImpl", "Judge.JC01"]
    judge = "judge_kemeny"
    ctype = "scheme * dataset * ranking * result kemeny_err Z"
    show = "show_kemeny"

    def gen(self, tier, rng):
        cases = []
        prs = gen.all_partial_rankings([0, 1, 2])
        cands3 = list(gen.set_partitions_ordered([0, 1, 2])) + list(gen.set_partitions_ordered([0, 1, 2, 3]))
        schemes = [gen.GENERIC]
        # exhaustive: datasets of <= 2 partial rankings over 3 elements x all candidates over 3 and 4 elements
        pairs = [(r1, r2) for r1 in prs for r2 in prs if (r1 or r2)]
        if tier == "quick":
            pairs = rng.sample(pairs, 60)
        for s in schemes:
            for r1, r2 in pairs:
                for c in (cands3 if tier == "thorough" else rng.sample(cands3, 12)):
                    cases.append({"s": s, "D": [r1, r2], "c": c})
        n = 600 if tier == "quick" else 8000
        for _ in range(n):
            D = gen.random_dataset(rng, 8, 6)
            univ = sorted({e for r in D for b in r for e in b})
            mode = rng.random()
            if mode < 0.6:
                base = univ
            elif mode < 0.8:
                base = univ + [max(univ) + 1 + i for i in range(rng.randint(1, 3))]  # superset
            else:
                base = [e for e in univ if rng.random() < 0.8]  # may lack an element
            c = gen.random_ranking(rng, base, 1.0, rng.choice([1.0, 0.7, 0.4, 0.1]))
            if rng.random() < 0.12:         # a candidate with empty buckets (accepted by Ranking; they hold no pair)
                for _ in range(rng.randint(1, 2)):
                    c.insert(rng.randint(0, len(c)), [])
            case = {"s": gen.pick_scheme(rng), "D": D, "c": c}
            if rng.random() < 0.15:
                case["derived"] = rng.choice([1, 2])
            if rng.random() < 0.2:
                case["neighbours"] = True   # the same candidate was scored under proportional schemes just before (same process)
            if rng.random() < 0.25:
                case["via"] = "consensus"       # the score is read on a Consensus object built over the candidate (several per process)
            cases.append(case)
        # single-element universes, empty rankings, empty candidate
        cases += [{"s": gen.GENERIC, "D": [[[5]]], "c": [[5]]}, {"s": gen.GENERIC, "D": [[[5]], []], "c": [[5]]},
                  {"s": gen.GENERIC, "D": [[[5]], []], "c": []}, {"s": gen.UNIFYING, "D": [[], [[1, 2]]], "c": [[2], [1], [3]]}]
        return cases

    def run(self, case):
        ds, cand = make(case)
        sc = ScoringScheme(case["s"])
        if case.get("derived"):
            # the scheme is the product of a number and a scheme object that has a past (scores were computed with it)
            base = derived_scheme(case["s"])
            if base is not None:
                sc = base * 2 if case["derived"] == 1 else 2 * base
                assert sc.penalty_vectors == ScoringScheme(case["s"]).penalty_vectors
        out = {"D": gen.observe(ds), "c": cand_listing(cand)}
        try:
            if case.get("via") == "consensus":
                # the other observation point: a Consensus object built directly over the candidate (no attribute dictionary given),
                # its score read on demand - and read again
                from corankco.consensus import Consensus
                if len(case["c"]) > 1:       # another object of the same kind lived before this one (keeps the replay self-contained)
                    Consensus([Ranking([{gen.fwd(e) for e in b} for b in reversed(case["c"])])], ds, sc).kemeny_score
                co = Consensus([cand], ds, sc)
                v = co.kemeny_score
                assert co.kemeny_score == v
            else:
                if case.get("neighbours"):
                    for k in (2.0, 0.5):
                        try:
                            KemenyComputingFactory(ScoringScheme([[x * k for x in case["s"][0]], [x * k for x in case["s"][1]]])).get_kemeny_score(cand, ds)
                        except Exception:
                            pass
                v = KemenyComputingFactory(sc).get_kemeny_score(cand, ds)
            out["score"] = to_units(v)
            out["raw"] = float(v)
        except Exception as e:
            out["err"] = exc_class(e)
        return out

    def term(self, case, out):
        if "err" in out:
            res = "(Err " + (out["err"] if out["err"] == "InvalidRankings" else "OutOfFuel") + ")"
        else:
            assert out["score"] is not None, out
            res = f"(Ok {z(out['score'])})"
        return f"({scheme_term(case['s'])}, {dataset_term(out['D'])}, {ranking_term(out['c'])}, {res})"

    def nontrivial(self, case, out):
        return sum(len(b) for b in out["c"]) >= 2 and "score" in out

    def stats(self, case, out, acc):
        k = "refused" if "err" in out else "scored"
        acc[k] = acc.get(k, 0) + 1
        univ = {e for r in out["D"] for b in r for e in b}
        cs = {e for b in out["c"] for e in b}
        acc["read_on_a_Consensus_object"] = acc.get("read_on_a_Consensus_object", 0) + int(case.get("via") == "consensus")
        acc["candidate_with_empty_bucket"] = acc.get("candidate_with_empty_bucket", 0) + int(any(len(b) == 0 for b in out["c"]))
        acc["superset_candidate"] = acc.get("superset_candidate", 0) + int(cs > univ)
        acc["incomplete_dataset"] = acc.get("incomplete_dataset", 0) + int(any({e for b in r for e in b} != univ for r in out["D"]))
        s = case["s"]
        acc["B3,B5,T5 nonzero"] = acc.get("B3,B5,T5 nonzero", 0) + int(s[0][3] > 0 and s[0][5] > 0 and s[1][5] > 0)


class Counters(Suite):
    """unit-level, informative: the (s_1, s_2) vectors of __cost_by_ranking"""
    name = "counters"
    imports = ["Scheme", "Rank", "KemenyImpl", "Judge.JC01"]
    judge = "judge_counters"
    informative = True

    def gen(self, tier, rng):
        cases = []
        for _ in range(200 if tier == "quick" else 3000):
            univ = list(range(rng.randint(1, 7)))
            cases.append({"c": gen.random_ranking(rng, univ, 1.0, rng.choice([1.0, 0.6, 0.3])),
                          "r": gen.random_ranking(rng, univ, rng.choice([1.0, 0.7, 0.4]), rng.choice([1.0, 0.6, 0.3]))})
        return cases

    def run(self, case):
        cand = Ranking([set(b) for b in case["c"]])
        r = Ranking([set(b) for b in case["r"]])
        mapping = {}
        for i, b in enumerate(cand):
            for e in b:
                mapping[e] = i
        s1, s2 = KemenyComputingFactory._KemenyComputingFactory__cost_by_ranking(cand, mapping, r)
        return {"c": cand_listing(cand), "r": cand_listing(r),
                "v": [int(s1[1]), int(s1[2]), int(s1[3]), int(s1[4]), int(s1[5]), int(s2[0]), int(s2[3]), int(s2[5])]}

    def term(self, case, out):
        return f"({ranking_term(out['c'])}, {ranking_term(out['r'])}, {zlist(out['v'])})"


class Big(Suite):
    """one strict ranking of tens of thousands of elements against the candidate that ties them all, or that reverses it: more than 2^31
    pairs, judged against the closed forms proved in BigScore.v (the model itself cannot be evaluated at that size)"""
    name = "big"
    imports = ["Scheme", "Judge.JC01"]
    judge = "judge_big"
    ctype = "scheme * Z * Z * option Z"
    breadcrumbs = True

    def gen(self, tier, rng):
        # kind 0: the candidate ties all the elements; kind 1: the candidate is the reverse order (every pair inverted)
        cases = [{"n": 66000, "s": gen.UNIFYING_HALF, "kind": 0}, {"n": 300, "s": gen.GENERIC, "kind": 0},
                 {"n": 66000, "s": gen.GENERIC, "kind": 1}, {"n": 257, "s": gen.UNIFYING, "kind": 1}]
        if tier == "thorough":
            cases += [{"n": 70001, "s": gen.GENERIC, "kind": 0}, {"n": 100000, "s": gen.UNIFYING, "kind": 0}, {"n": 100000, "s": gen.PSEUDO, "kind": 1}]
        return cases

    def run(self, case):
        n = case["n"]
        ds = Dataset([Ranking([{i} for i in range(n)])])
        cand = Ranking([set(range(n))]) if case["kind"] == 0 else Ranking([{i} for i in reversed(range(n))])
        v = KemenyComputingFactory(ScoringScheme(case["s"])).get_kemeny_score(cand, ds)
        return {"score": to_units(v)}

    def term(self, case, out):
        return f"({scheme_term(case['s'])}, {z(case['n'])}, {z(case['kind'])}, {copt(out['score'], z)})"

    def nontrivial(self, case, out):
        return True

    def stats(self, case, out, acc):
        acc[f"n={case['n']},{'all tied' if case['kind'] == 0 else 'reversed'}"] = 1


if __name__ == "__main__":
    main("C01", [Kemeny(), Counters(), Big()], gen_targets=["kemenymerge"],
         level_note="see MANIFEST level_note",
         rule="exhaustive block: datasets of two partial rankings over {0,1,2} x candidates over 3 and 4 elements (quick: sampled) under the "
              "generic scheme (all 12 penalties distinct where allowed); random datasets <= 8 x 6 with candidates over the universe (60%), "
              "a strict superset (20%) or possibly lacking an element (20%); degenerate sizes. non-trivial = scored candidate with >= 2 elements")
