"""C10 — PickAPerm returns exactly the best input rankings."""
from common import *
import gen
from algos import give_a_past, random_past, seasoned
from corankco.dataset import Dataset
from corankco.scoringscheme import ScoringScheme
from corankco.algorithms.pickaperm.pickaperm import PickAPerm


def pick_scheme(rng):
    r = rng.random()
    if r < 0.45:
        k = rng.choice([1, 1, 0.5, 2, 3])
        return [[x * k for x in gen.UNIFYING[0]], [x * k for x in gen.UNIFYING[1]]]
    if r < 0.6:  # differs from unifying in T only (F12) or in one entry
        s = [list(gen.UNIFYING[0]), list(gen.UNIFYING[1])]
        v, i = rng.choice([(1, 5), (1, 0), (1, 3), (0, 5), (0, 2)])
        s[v][i] = rng.choice([0.0, 0.5, 2.0])
        if (v, i) == (1, 0):
            s[1][1] = s[1][0]
        if (v, i) == (1, 3):
            s[1][4] = s[1][3]
        return s
    return gen.pick_scheme(rng)


class Pick(Suite):
    scribbled_rate, bench_rate = 0.1, 0.1
    seasoned_rate = 0.2      # share of the cases run on a PickAPerm object that has served before (algos.seasoned)
    name = "pickaperm"
    imports = ["Scheme", "Rank", "Borda", "PickAPerm", "Judge.JC10"]
    judge = "judge_pick"
    show = "show_pick"
    ctype = "bool * scheme * dataset * result algo_err (option Z * list ranking)"

    def gen(self, tier, rng):
        cases = []
        prs = gen.all_partial_rankings([0, 1, 2])
        pairs = [(a, b) for a in prs for b in prs if a or b]
        if tier == "quick":
            pairs = rng.sample(pairs, 120)
        for a, b in pairs:
            cases.append({"one": rng.random() < 0.5, "s": gen.UNIFYING, "D": [a, b]})
        n = 700 if tier == "quick" else 8000
        for _ in range(n):
            D = gen.random_dataset(rng, 7, 6)
            if rng.random() < 0.3:  # duplicates and equal-score rankings
                D = D + [[list(b) for b in r] for r in rng.sample(D, 1)]
            cases.append({"one": rng.random() < 0.5, "s": pick_scheme(rng), "D": D})
        # schemes under which creating / breaking a tie costs nothing: different rankings (coarsenings of one order) all score 0 and all
        # of them must be returned when all are requested
        for _ in range(60 if tier == "quick" else 600):
            n = rng.randint(3, 6)
            order = list(range(n))
            rng.shuffle(order)
            D = []
            for _ in range(rng.randint(2, 5)):
                r = [[order[0]]]
                for e in order[1:]:
                    if rng.random() < 0.45:
                        r[-1].append(e)
                    else:
                        r.append([e])
                D.append(r)
            if rng.random() < 0.3:
                D.append(gen.random_ranking(rng, order, 1.0, 0.6))
            free_ties = rng.choice([[[0.0, 1.0, 0.0, 0.0, 0.0, 0.0], [0.0, 0.0, 0.0, 0.0, 0.0, 0.0]],
                                    [[0.0, 2.0, 0.0, 0.0, 1.0, 0.5], [0.0, 0.0, 0.0, 1.0, 1.0, 0.0]]])
            cases.append({"one": rng.random() < 0.3, "s": free_ties, "D": D})
        # complete datasets under schemes whose penalties have very different magnitudes (all exactly representable): the scores of two
        # input rankings are huge and differ by one unit - a genuine difference, however small relatively
        for _ in range(80 if tier == "quick" else 800):
            big = rng.choice([1e6, 2.0 ** 22, 1e7])
            s = rng.choice([[[0.0, big, 1.0, 0.0, big, 1.0], [1.0, 1.0, 0.0, 1.0, 1.0, 0.0]], [[0.0, 1.0, big, 0.0, 1.0, 1.0], [big, big, 0.0, 1.0, 1.0, 0.0]],
                            [[0.0, big, big + 1, 0.0, big, 1.0], [big, big, 0.0, 1.0, 1.0, 0.0]]])
            n = rng.randint(3, 6)
            D = [gen.random_ranking(rng, list(range(n)), 1.0, rng.choice([0.8, 0.6, 0.4])) for _ in range(rng.randint(3, 6))]
            cases.append({"one": rng.random() < 0.5, "s": s, "D": D})
        # datasets with a past (PickAPerm and the other readers ran, then elements were removed in place): judged on the dataset as it is
        for _ in range(80 if tier == "quick" else 800):
            D = gen.random_dataset(rng, 7, 5)
            cases.append({"one": rng.random() < 0.5, "s": rng.choice([gen.UNIFYING, gen.UNIFYING, pick_scheme(rng)]), "D": D, "past": random_past(rng, D)})
        # names that contain the separators of the textual form of a ranking: two different rankings can then print alike
        # (a memo or a de-duplication keyed on str(ranking) would confuse them)
        for _ in range(120 if tier == "quick" else 1500):
            n = rng.randint(4, 6)
            perm = list(range(n))
            rng.shuffle(perm)
            names = {perm[0]: "a", perm[1]: "b", perm[2]: rng.choice(["a}, {b", "a, b", "b}, {a"])}
            for k, e in enumerate(perm[3:]):
                names[e] = ["c", "d", "c}, {d"][k]
            D = []
            for _ in range(rng.randint(2, 5)):
                D.append(gen.random_ranking(rng, list(range(n)), 1.0, rng.choice([1.0, 1.0, 0.6])))
            # the look-alike of a ranking: the odd name swapped with the pair of plain names it imitates
            look = []
            for r in D[:2]:
                flat = [e for b in r for e in b]
                if len(flat) == len(r):      # a permutation
                    i0, i1, i2 = flat.index(perm[0]), flat.index(perm[1]), flat.index(perm[2])
                    if abs(i0 - i1) == 1 and i2 not in (i0, i1):
                        q = flat[:]
                        lo = min(i0, i1)
                        pair = [q[lo], q[lo + 1]]
                        rest = [e for e in q if e not in pair and e != perm[2]]
                        # rebuild: put the odd name where the pair was and the pair where the odd name was
                        new = []
                        for e in q:
                            if e == pair[0]:
                                new.append(perm[2])
                            elif e == pair[1]:
                                continue
                            elif e == perm[2]:
                                new.extend(pair)
                            else:
                                new.append(e)
                        look.append([[e] for e in new])
            D = D + look
            if rng.random() < 0.5:
                D = D + [[list(b) for b in D[0]]] * rng.randint(1, 2)
            rng.shuffle(D)
            cases.append({"one": rng.random() < 0.5, "s": pick_scheme(rng), "D": D, "names": [names[i] for i in range(n)]})
        return cases

    def run(self, case):
        names = case.get("names")
        fwd = (lambda e: names[e]) if names else (lambda e: e)
        back = (lambda v: names.index(v)) if names else (lambda v: v)
        ds = Dataset.from_raw_list([[{fwd(e) for e in b} for b in r] for r in case["D"]])
        sc = ScoringScheme(case["s"])
        if case.get("past"):
            give_a_past(ds, case["past"], sc)
        out = {"D": [[[back(v) for v in b] for b in r] for r in gen.observe(ds)], "complete": bool(ds.is_complete)}
        try:
            alg = PickAPerm()
            if case.get("seasoned"):
                seasoned(alg, case["D"], case["s"], lambda raw: Dataset.from_raw_list([[{fwd(e) for e in b} for b in r] for r in raw]))
            if case.get("scribbled"):
                from algos import scribble
                scribble(ds)
            cons = alg.compute_consensus_rankings(ds, sc, case["one"], True) if case.get("bench") else alg.compute_consensus_rankings(ds, sc, case["one"])
            out["cons"] = [[[back(e.value) for e in b] for b in r.buckets] for r in cons.consensus_rankings]
            out["score"] = to_units(cons.kemeny_score)
        except Exception as e:
            out["err"] = exc_class(e)
        return out

    def term(self, case, out):
        if "err" in out:
            res = "(Err " + (out["err"] if out["err"] in ("SchemeNotHandled", "IncompleteIncompatible") else "IncompatibleArguments") + ")"
        else:
            res = f"(Ok ({copt(out['score'], z)}, {clist([ranking_term(r) for r in out['cons']])}))"
        return f"({cbool(case['one'])}, {scheme_term(case['s'])}, {dataset_term(out['D'])}, {res})"

    def nontrivial(self, case, out):
        return "cons" in out and len(out["D"]) >= 2

    def stats(self, case, out, acc):
        k = ("complete" if out["complete"] else "incomplete") + (":refused" if "err" in out else ":ok")
        acc[k] = acc.get(k, 0) + 1
        acc["names_with_separators"] = acc.get("names_with_separators", 0) + int(bool(case.get("names")))
        if "cons" in out:
            acc["several_returned"] = acc.get("several_returned", 0) + int(len(out["cons"]) > 1)


if __name__ == "__main__":
    main("C10", [Pick()],
         level_note="scores in the theorems are kemeny_spec (property C01 ties the routine to it; here the implementation's reported score "
                    "is also compared with kemeny_spec inside Coq)",
         rule="pairs of partial rankings over {0,1,2} under the unifying scheme; random datasets <= 7 x 6 (+ duplicated rankings) with "
              "the unifying scheme and its multiples (45%), schemes differing from it in one entry of B or T (15%), other valid schemes; "
              "both values of return_at_most_one_ranking. non-trivial = accepted and >= 2 rankings")
