"""C05 — the exact algorithm returns a global optimum, with or without CPLEX."""
import sys
from common import *
import gen
from algos import *
from corankco.algorithms.exact.exactalgorithm import ExactAlgorithm
from corankco.algorithms.exact.exactalgorithmpulp import ExactAlgorithmPulp

CONFIGS = [(0, "selector optimize=True", lambda: ExactAlgorithm(optimize=True), True),
           (1, "selector optimize=False", lambda: ExactAlgorithm(optimize=False), True),
           (2, "pulp", lambda: ExactAlgorithmPulp(), True),
           (3, "pulp all", lambda: ExactAlgorithmPulp(), False)]


class Exact(Suite):
    name = "exact"
    imports = ["Scheme", "Rank", "Partition", "Judge.JOpt"]
    judge = "judge_exact"
    show = "show_exact"
    ctype = "c05"

    def gen(self, tier, rng):
        cases = [{"s": gen.INDUCED, "D": [[[1]], [[2]]]},          # F6: empty objective
                 {"s": gen.GENERIC, "D": [[[5]]]},
                 {"s": gen.GENERIC, "D": [[[1], [2], [3]], [[2], [3], [1]], [[3], [1], [2]]]},   # F1 witness (a real ILP is needed)
                 {"s": gen.UNIFYING, "D": [[[3], [2], [1], [4]], [[1, 3, 4]], [[3, 4]], []]}]
        prs = gen.all_partial_rankings([0, 1, 2])
        for _ in range(40 if tier == "quick" else 500):
            cases.append({"s": opt_scheme(rng), "D": [rng.choice(prs) or [[0]], rng.choice(prs), rng.choice(prs)]})
        for _ in range(70 if tier == "quick" else 900):
            cases.append({"s": p_scheme(rng), "D": cyclic_dataset(rng, 5 if tier == "quick" else 6)})
        for _ in range(50 if tier == "quick" else 700):
            cases.append({"s": rng.choice([gen.UNIFYING, gen.UNIFYING, gen.EXTENDED, gen.UNIFYING_HALF, gen.GENERIC]),
                          "D": sparse_component_dataset(rng, 5 if tier == "quick" else 7)})
        for _ in range(100 if tier == "quick" else 1500):
            nmax = rng.choice([4, 5, 6, 6]) if tier == "quick" else rng.choice([5, 6, 7, 7])
            cases.append({"s": opt_scheme(rng), "D": layered_dataset(rng, nmax, 5) if rng.random() < 0.5 else gen.random_dataset(rng, nmax, 5)})
        return cases

    def run(self, case):
        ds, sc = mk(case["D"], case["s"])
        out = {"D": gen.observe(ds), "U": gen.id_order(ds), "cplex_importable": "cplex" in sys.modules, "runs": []}
        for cid, name, mkalg, one in CONFIGS:
            try:
                cons = mkalg().compute_consensus_rankings(ds, sc, one)
                sc_rep = cons.kemeny_score
                out["runs"].append({"id": cid, "cons": [lst(r) for r in cons.consensus_rankings], "flag": bool(cons.necessarily_optimal),
                                    "score": None if sc_rep is None else to_units(round(float(sc_rep) * ONE) / ONE) if abs(float(sc_rep) * ONE - round(float(sc_rep) * ONE)) < 1e-6 * ONE else None,
                                    "raw_score": None if sc_rep is None else float(sc_rep)})
            except Exception as e:
                out["runs"].append({"id": cid, "err": type(e).__name__ + ": " + str(e)[:80]})
        return out

    def term(self, case, out):
        runs = []
        for r in out["runs"]:
            if "err" in r:
                runs.append(f"(mkEX {nat(r['id'])} [] false None)")
            else:
                runs.append(f"(mkEX {nat(r['id'])} {clist([ranking_term(c) for c in r['cons']])} {cbool(r['flag'])} {copt(r['score'], z)})")
        return f"(mkC05 {scheme_term(case['s'])} {dataset_term(out['D'])} {natlist(out['U'])} {clist(runs)})"

    def nontrivial(self, case, out):
        return len(out["U"]) >= 3

    def stats(self, case, out, acc):
        acc[f"n={len(out['U'])}"] = acc.get(f"n={len(out['U'])}", 0) + 1
        acc["exceptions"] = acc.get("exceptions", 0) + int(any("err" in r for r in out["runs"]))
        acc["score_absent"] = acc.get("score_absent", 0) + int(any(r.get("raw_score", 0) is None for r in out["runs"] if "err" not in r))
        acc["cplex_importable"] = acc.get("cplex_importable", 0) + int(out["cplex_importable"])


if __name__ == "__main__":
    main("C05", [Exact()],
         level_note="see MANIFEST",
         rule="witnesses of F1 / F2 / F6; 3-ranking datasets over {0,1,2}; layered and random datasets up to 6 (7) elements, schemes biased to "
              "B5 != T5; four configurations per dataset (selector optimize on/off, free-solver model one / all); the optimum is recomputed "
              "in Coq by the verified brute force. non-trivial = >= 3 elements")
