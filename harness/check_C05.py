"""C05 — the exact algorithm returns a global optimum, with or without CPLEX."""
import os
import sys
from common import *
import gen
from algos import *
from corankco.algorithms.exact.exactalgorithm import ExactAlgorithm
from corankco.algorithms.exact.exactalgorithmpulp import ExactAlgorithmPulp
from corankco.consensus import ConsensusFeature

CONFIGS = [(0, "selector optimize=True", lambda: ExactAlgorithm(optimize=True), True),
           (1, "selector optimize=False", lambda: ExactAlgorithm(optimize=False), True),
           (2, "pulp", lambda: ExactAlgorithmPulp(), True),
           (3, "pulp all", lambda: ExactAlgorithmPulp(), False)]


class Exact(Suite):
    scribbled_rate = 0.1     # share of the cases where the caller scribbled on what the read accessors returned (algos.scribble)
    escalate_cap = 120
    names_rate, past_rate = 0.06, 0.06     # hostile element names / datasets with a past (gen.decorate_cases)
    name = "exact"
    imports = ["Scheme", "Rank", "Partition", "Judge.JOpt"]
    judge = "judge_exact"
    show = "show_exact"
    ctype = "c05"

    def gen(self, tier, rng):
        cases = [{"s": gen.INDUCED, "D": [[[1]], [[2]]]},          # F6: empty objective
                 {"s": gen.GENERIC, "D": [[[5]]]},
                 {"s": gen.GENERIC, "D": [[[1], [2], [3]], [[2], [3], [1]], [[3], [1], [2]]]},   # F1 witness (a real ILP is needed)
                 {"s": gen.UNIFYING, "D": [[[3], [2], [1], [4]], [[1, 3, 4]], [[3, 4]], []]}]
        prs = gen.all_partial_rankings([0, 1, 2])
        for _ in range(40 if tier == "quick" else 500):
            cases.append({"s": opt_scheme(rng), "D": [rng.choice(prs) or [[0]], rng.choice(prs), rng.choice(prs)]})
        for _ in range(70 if tier == "quick" else 900):
            cases.append({"s": p_scheme(rng), "D": cyclic_dataset(rng, 5 if tier == "quick" else 6)})
        for _ in range(50 if tier == "quick" else 700):
            cases.append({"s": rng.choice([gen.UNIFYING, gen.UNIFYING, gen.EXTENDED, gen.UNIFYING_HALF, gen.GENERIC]),
                          "D": sparse_component_dataset(rng, 5 if tier == "quick" else 6)})
        for _ in range(100 if tier == "quick" else 1500):
            nmax = rng.choice([4, 5, 6, 6]) if tier == "quick" else rng.choice([5, 6, 6, 6])
            cases.append({"s": opt_scheme(rng), "D": layered_dataset(rng, nmax, 5) if rng.random() < 0.5 else gen.random_dataset(rng, nmax, 5)})
        return cases

    def run(self, case):
        ds, sc = mk(case["D"], case["s"])
        out = {"D": gen.observe(ds), "U": gen.id_order(ds), "cplex_importable": "cplex" in sys.modules, "runs": []}
        for cid, name, mkalg, one in CONFIGS:
            try:
                cons = mkalg().compute_consensus_rankings(ds, sc, one)
                sc_rep = cons.kemeny_score
                out["runs"].append({"id": cid, "cons": [lst(r) for r in cons.consensus_rankings], "flag": bool(cons.necessarily_optimal),
                                    "score": None if sc_rep is None else to_units(round(float(sc_rep) * ONE) / ONE) if abs(float(sc_rep) * ONE - round(float(sc_rep) * ONE)) < 1e-6 * ONE else None,
                                    "raw_score": None if sc_rep is None else float(sc_rep)})
            except Exception as e:
                out["runs"].append({"id": cid, "err": type(e).__name__ + ": " + str(e)[:80]})
        return out

    def term(self, case, out):
        runs = []
        for r in out["runs"]:
            if "err" in r:
                runs.append(f"(mkEX {nat(r['id'])} [] false None)")
            else:
                runs.append(f"(mkEX {nat(r['id'])} {clist([ranking_term(c) for c in r['cons']])} {cbool(r['flag'])} {copt(r['score'], z)})")
        return f"(mkC05 {scheme_term(case['s'])} {dataset_term(out['D'])} {natlist(out['U'])} {clist(runs)})"

    def nontrivial(self, case, out):
        return len(out["U"]) >= 3

    def stats(self, case, out, acc):
        acc[f"n={len(out['U'])}"] = acc.get(f"n={len(out['U'])}", 0) + 1
        acc["exceptions"] = acc.get("exceptions", 0) + int(any("err" in r for r in out["runs"]))
        acc["score_absent"] = acc.get("score_absent", 0) + int(any(r.get("raw_score", 0) is None for r in out["runs"] if "err" not in r))
        acc["cplex_importable"] = acc.get("cplex_importable", 0) + int(out["cplex_importable"])


def var_term(name):
    k, i, j = name.split("_")
    return f"({'X' if k == 'x' else 'T'} {nat(int(i))} {nat(int(j))})"


class Ilp(Suite):
    escalate_cap = 80
    """the integer program that ExactAlgorithmPulp hands to the solver, captured at the call of LpProblem.solve,
    and the solver's answer: compared row for row with the model's program (ILP.v), the answer checked feasible for
    the MODEL's rows and decoded by the model's decoder"""
    name = "ilp"
    imports = ["Scheme", "Rank", "Partition", "ILP", "Judge.JOpt", "Judge.JILP"]
    judge = "judge_ilp"
    show = "show_ilp"
    ctype = "c05ilp"

    def gen(self, tier, rng):
        cases = [{"s": gen.INDUCED, "D": [[[1]], [[2]]]}, {"s": gen.GENERIC, "D": [[[5]]]},
                 {"s": gen.GENERIC, "D": [[[1], [2], [3]], [[2], [3], [1]], [[3], [1], [2]]]},
                 {"s": gen.UNIFYING, "D": [[[3], [2], [1], [4]], [[1, 3, 4]], [[3, 4]], []]}]
        prs = gen.all_partial_rankings([0, 1, 2])
        for _ in range(20 if tier == "quick" else 300):
            cases.append({"s": opt_scheme(rng), "D": [rng.choice(prs) or [[0]], rng.choice(prs), rng.choice(prs)]})
        for _ in range(25 if tier == "quick" else 400):
            cases.append({"s": p_scheme(rng), "D": cyclic_dataset(rng, 5 if tier == "quick" else 6)})
        for _ in range(45 if tier == "quick" else 900):
            nmax = rng.choice([3, 4, 5, 5]) if tier == "quick" else rng.choice([4, 5, 6, 6])
            cases.append({"s": opt_scheme(rng), "D": layered_dataset(rng, nmax, 5) if rng.random() < 0.5 else gen.random_dataset(rng, nmax, 5)})
        return cases

    def run(self, case):
        import pulp
        ds, sc = mk(case["D"], case["s"])
        out = {"D": gen.observe(ds), "U": gen.id_order(ds)}
        cap = {}
        orig = pulp.LpProblem.solve

        def solve(prob, solver=None, **kw):
            res = orig(prob, solver, **kw)
            cap["rows"] = [([(float(c), v.name) for v, c in con.items()], int(con.sense), -float(con.constant))
                           for con in prob.constraints.values()]
            # pulp adds a variable "__dummy" (coefficient 0) when the objective has no term
            cap["obj"] = [(float(c), v.name) for v, c in prob.objective.items() if v.name != "__dummy"] if prob.objective is not None else []
            cap["vals"] = [(v.name, v.value()) for v in prob.variables() if v.name != "__dummy"]
            return res
        pulp.LpProblem.solve = solve
        try:
            graph, _ = ExactAlgorithmPulp.graph_of_elements(ds.get_positions(), sc)
            out["P"] = [list(g) for g in graph.components()]
            cons = ExactAlgorithmPulp().compute_consensus_rankings(ds, sc, True)
            out["cons"] = lst(cons.consensus_rankings[0])
            sc_rep = cons.features.get(ConsensusFeature.KEMENY_SCORE) if hasattr(cons, "features") else None
            # -1. is the Consensus object's "not computed yet" sentinel (the objective had no term: F6)
            out["score"] = None if sc_rep is None or float(sc_rep) == -1.0 else to_units(float(sc_rep))
        except Exception as e:
            out["err"] = type(e).__name__ + ": " + str(e)[:100]
        finally:
            pulp.LpProblem.solve = orig
        out["cap"] = cap
        return out

    def term(self, case, out):
        head = f"mkILP {scheme_term(case['s'])} {dataset_term(out['D'])} {natlist(out['U'])}"
        if "err" in out or "rows" not in out["cap"]:
            # an exception, or no program was solved: encoded as an empty program with an empty consensus (ill-formed)
            return f"({head} [] [] [] [] false [] None)"
        cap = out["cap"]
        rows = clist([f"(mkRow {clist(['(' + z(int(round(c))) + ', ' + var_term(v) + ')' for c, v in terms])} {cbool(sense == 0)} {z(int(round(rhs)))})"
                      for terms, sense, rhs in cap["rows"]])
        obj = clist([f"({z(to_units(c))}, {var_term(v)})" for c, v in cap["obj"]])
        vals = clist([f"({var_term(v)}, {z(1 if val is not None and abs(val - 1) < 0.01 else 0)})" for v, val in cap["vals"]])
        integral = all(val in (0.0, 1.0) for _, val in cap["vals"]) and all(s in (0, -1) for _, s, _ in cap["rows"]) \
            and all(float(c).is_integer() for terms, _, rhs in cap["rows"] for c, _ in terms) and all(float(rhs).is_integer() for _, _, rhs in cap["rows"])
        return (f"({head} {clist([natlist(g) for g in out['P']])} {rows} {obj} {vals} {cbool(integral)} "
                f"{ranking_term(out['cons'])} {copt(out['score'], z)})")

    def nontrivial(self, case, out):
        return len(out["U"]) >= 3 and "rows" in out.get("cap", {})

    def stats(self, case, out, acc):
        acc[f"n={len(out['U'])}"] = acc.get(f"n={len(out['U'])}", 0) + 1
        acc["rows_total"] = acc.get("rows_total", 0) + len(out.get("cap", {}).get("rows", []))
        acc["components>1"] = acc.get("components>1", 0) + int(len(out.get("P", [])) > 1)
        acc["exceptions"] = acc.get("exceptions", 0) + int("err" in out)

def to_units_tol(x):
    """like to_units, for values that the library computed as float sums of non-dyadic grid penalties (3999/8000 ...):
    the nearest grid point when it is closer than 1e-6 units"""
    if x is None:
        return None
    v = float(x) * ONE
    r = round(v)
    return int(r) if abs(v - r) < 1e-6 else None


STANDIN = os.path.join(os.path.dirname(os.path.abspath(__file__)), "standin")


class Cplex(Suite):
    escalate_cap = 60
    """The CPLEX models (ExactAlgorithmCplex optimize on / off, one / all optimal consensuses, the "optim1" variant)
    and the CPLEX branch of the selector, run on a stand-in for the CPLEX Python API (harness/standin/cplex: same
    calls, CBC underneath - CPLEX itself is not installed). For the configurations that solve one program over the
    whole dataset the program is compared row for row with the model (ILP.cplex_rows) and every solution is checked
    feasible for the MODEL's rows and decoded by the model's decoder; "all optimal consensuses" is compared with the
    set of all minimisers enumerated in Coq."""
    name = "cplex"
    imports = ["Scheme", "Rank", "Partition", "ILP", "Judge.JOpt", "Judge.JILP"]
    judge = "judge_cplex"
    show = "show_cplex"
    ctype = "c05cplex"

    def gen(self, tier, rng):
        self.tier = tier
        cases = [{"s": gen.GENERIC, "D": [[[1], [2], [3]], [[2], [3], [1]], [[3], [1], [2]]]},
                 {"s": gen.UNIFYING, "D": [[[3], [2], [1], [4]], [[1, 3, 4]], [[3, 4]], []]},
                 # tie cheaper than both orders by less than the 0.001 of the no-tie test (F15)
                 {"s": [[0., 1., 1., 0., 1., 0.], [0.499875, 0.499875, 0., 0., 0., 0.]], "D": [[[1], [2]], [[2], [1]]]}]
        prs = gen.all_partial_rankings([0, 1, 2])
        for _ in range(25 if tier == "quick" else 400):
            cases.append({"s": opt_scheme(rng), "D": [rng.choice(prs) or [[0]], rng.choice(prs), rng.choice(prs)]})
        for _ in range(20 if tier == "quick" else 300):
            cases.append({"s": p_scheme(rng), "D": cyclic_dataset(rng, 4 if tier == "quick" else 5)})
        for _ in range(15 if tier == "quick" else 300):
            # penalties of ties just below / at / above the average of the two orders, on the 1/8000 grid
            t = 0.5 + rng.choice([-4, -3, -2, -1, 0, 1]) * 0.000125
            cases.append({"s": [[0., 1., 1., 0., 1., 0.], [t, t, 0., 1., 1., 0.]], "D": cyclic_dataset(rng, 4)})
        for _ in range(25 if tier == "quick" else 300):       # elements that can be tied two by two along a chain but not all together
            D, s = chain_tie_dataset(rng)
            cases.append({"s": s, "D": D})
        for _ in range(30 if tier == "quick" else 600):
            nmax = rng.choice([3, 4, 4]) if tier == "quick" else rng.choice([4, 5, 5])
            cases.append({"s": opt_scheme(rng), "D": layered_dataset(rng, nmax, 4) if rng.random() < 0.5 else gen.random_dataset(rng, nmax, 4)})
        return cases

    def run(self, case):
        import pulp  # noqa: F401  (pulp must be imported BEFORE the stand-in is visible: pulp itself probes "import cplex")
        import corankco.algorithms.exact.exactalgorithmcplex as cpx_mod
        from corankco.algorithms.exact.exactalgorithmcplex import ExactAlgorithmCplex
        from corankco.algorithms.exact.exactalgorithmcplexforpaperoptim1 import ExactAlgorithmCplexForPaperOptim1
        ds, sc = mk(case["D"], case["s"])
        out = {"D": gen.observe(ds), "U": gen.id_order(ds), "runs": [], "progs": [], "all": None}
        sys.path.insert(0, STANDIN)
        had = hasattr(cpx_mod, "cplex")
        try:
            import cplex as standin
            cpx_mod.cplex = standin
            configs = [(10, lambda: ExactAlgorithmCplex(optimize=True), True, None),
                       (11, lambda: ExactAlgorithmCplex(optimize=False), True, False),
                       (12, lambda: ExactAlgorithmCplex(optimize=False), False, False),
                       (13, lambda: ExactAlgorithmCplexForPaperOptim1(), True, True),
                       (14, lambda: ExactAlgorithm(optimize=True), True, None),
                       (15, lambda: ExactAlgorithm(optimize=False), True, None)]
            for cid, mkalg, one, notie in configs:
                del standin.LAST[:]
                try:
                    alg = mkalg()
                    cons = alg.compute_consensus_rankings(ds, sc, one)
                    sc_rep = cons.kemeny_score
                    out["runs"].append({"id": cid, "cons": [lst(r) for r in cons.consensus_rankings], "flag": bool(cons.necessarily_optimal),
                                        "score": to_units_tol(sc_rep), "inner": type(getattr(alg, "_alg", alg)).__name__})
                    if notie is not None and len(out["U"]) >= 2:
                        assert len(standin.LAST) == 1, len(standin.LAST)
                        P = standin.LAST[0]
                        pool = P._pool if not one else [P._values]
                        out["progs"].append({"notie": notie,
                                             "rows": [(list(zip(coefs, names)), sense, rhs) for (names, coefs), sense, rhs in
                                                      zip(P.linear_constraints.rows, P.linear_constraints.senses, P.linear_constraints.rhs)],
                                             "obj": list(zip(P.variables.obj, P.variables.names)),
                                             "pool": [list(zip(P.variables.names, vals)) for vals in pool],
                                             "cons": [lst(r) for r in cons.consensus_rankings]})
                    if cid == 12:
                        out["all"] = [lst(r) for r in cons.consensus_rankings]
                except Exception as e:
                    out["runs"].append({"id": cid, "err": type(e).__name__ + ": " + str(e)[:100]})
        finally:
            sys.path.remove(STANDIN)
            sys.modules.pop("cplex", None)
            if not had and hasattr(cpx_mod, "cplex"):
                del cpx_mod.cplex
        return out

    def term(self, case, out):
        runs = []
        for r in out["runs"]:
            if "err" in r:
                runs.append(f"(mkEX {nat(r['id'])} [] false None)")
            else:
                runs.append(f"(mkEX {nat(r['id'])} {clist([ranking_term(c) for c in r['cons']])} {cbool(r['flag'])} {copt(r['score'], z)})")
        progs = []
        for p in out["progs"]:
            rows = clist([f"(mkRow {clist(['(' + z(int(round(c))) + ', ' + var_term(v) + ')' for c, v in terms])} {cbool(sense == 'E')} {z(int(round(rhs)))})"
                          for terms, sense, rhs in p["rows"]])
            obj = clist([f"({z(to_units_tol(c))}, {var_term(v)})" for c, v in p["obj"]])
            pool = clist([clist([f"({var_term(v)}, {z(1 if abs(val - 1) < 0.001 else 0)})" for v, val in vals]) for vals in p["pool"]])
            integral = all(val in (0.0, 1.0) for vals in p["pool"] for _, val in vals) and all(s in "EL" for _, s, _ in p["rows"]) \
                and all(float(c).is_integer() for terms, _, rhs in p["rows"] for c, _ in terms)
            progs.append(f"(mkCP {cbool(p['notie'])} {rows} {obj} {pool} {cbool(integral)} {clist([ranking_term(c) for c in p['cons']])})")
        check_all = out["all"] is not None and len(out["U"]) <= (4 if getattr(self, "tier", "quick") == "quick" else 5)
        allr = "(Some " + clist([ranking_term(c) for c in out["all"]]) + ")" if check_all else "None"
        return (f"(mkC05C {scheme_term(case['s'])} {dataset_term(out['D'])} {natlist(out['U'])} {clist(runs)} {clist(progs)} {allr})")

    def nontrivial(self, case, out):
        return len(out["U"]) >= 3

    def stats(self, case, out, acc):
        acc[f"n={len(out['U'])}"] = acc.get(f"n={len(out['U'])}", 0) + 1
        acc["exceptions"] = acc.get("exceptions", 0) + int(any("err" in r for r in out["runs"]))
        acc["programs_compared"] = acc.get("programs_compared", 0) + len(out["progs"])
        acc["several_optima_returned"] = acc.get("several_optima_returned", 0) + int(out["all"] is not None and len(out["all"]) > 1)
        acc["selector_used_cplex_model"] = acc.get("selector_used_cplex_model", 0) + int(any(r.get("inner") == "ExactAlgorithmCplex" for r in out["runs"] if r["id"] in (14, 15)))
        acc["no_tie_rows_present"] = acc.get("no_tie_rows_present", 0) + int(any(len(t) == 1 and t[0][1].startswith("t_") for p in out["progs"] for t, _, _ in p["rows"]))


class Reuse(Suite):
    escalate_cap = 20
    """ONE algorithm object answers a sequence of calls (the way a benchmark loop uses the library): the same dataset under
    schemes that agree on their first three penalties (unifying / induced / pseudo-distance with the same p, multiples), an
    equal dataset built anew, another dataset - each answer must be a global optimum for ITS dataset and scheme"""
    name = "reuse"
    imports = ["Scheme", "Rank", "Partition", "Judge.JOpt"]
    judge = "judge_exact_seq"
    show = "show_exact_seq"
    ctype = "list c05"

    def gen(self, tier, rng):
        cases = []
        for _ in range(25 if tier == "quick" else 300):
            p = rng.choice([1.0, 1.0, 0.5, 0.75])
            fam = [[[0.0, 1.0, p, 0.0, 1.0, p], [p, p, 0.0, p, p, 0.0]],        # unifying
                   [[0.0, 1.0, p, 0.0, 0.0, 0.0], [p, p, 0.0, 0.0, 0.0, 0.0]],  # induced measure
                   [[0.0, 1.0, p, 0.0, 1.0, 0.0], [p, p, 0.0, p, p, 0.0]]]      # pseudo-distance
            rng.shuffle(fam)
            k = rng.choice([1, 2, 0.5])
            fam.append([[x * k for x in fam[0][0]], [x * k for x in fam[0][1]]])
            D1 = rng.choice([gen.random_dataset(rng, 5, 4), layered_dataset(rng, 5, 4), sparse_component_dataset(rng, 5)])
            D2 = gen.random_dataset(rng, 5, 4)
            calls = [{"D": D1, "s": s} for s in fam] + [{"D": D2, "s": fam[0]}, {"D": [[list(b) for b in r] for r in D1], "s": fam[1]}]
            cases.append({"kind": rng.choice([0, 1, 2]), "one": True, "calls": calls})
        return cases

    def run(self, case):
        mkalg = CONFIGS[case["kind"]][2]
        alg = mkalg()
        outs = []
        for c in case["calls"]:
            ds, sc = mk(c["D"], c["s"])
            o = {"D": gen.observe(ds), "U": gen.id_order(ds)}
            try:
                cons = alg.compute_consensus_rankings(ds, sc, case["one"])
                v = cons.kemeny_score
                o["run"] = {"cons": [lst(r) for r in cons.consensus_rankings], "flag": bool(cons.necessarily_optimal),
                            "score": None if v is None else to_units_tol(float(v))}
            except Exception as e:
                o["run"] = {"err": type(e).__name__ + ": " + str(e)[:80]}
            outs.append(o)
        return {"calls": outs}

    def term(self, case, out):
        items = []
        for c, o in zip(case["calls"], out["calls"]):
            r = o["run"]
            if "err" in r:
                run = f"(mkEX {nat(case['kind'])} [] false None)"
            else:
                run = f"(mkEX {nat(case['kind'])} {clist([ranking_term(x) for x in r['cons']])} {cbool(r['flag'])} {copt(r['score'], z)})"
            items.append(f"(mkC05 {scheme_term(c['s'])} {dataset_term(o['D'])} {natlist(o['U'])} [{run}])")
        return clist(items)

    def nontrivial(self, case, out):
        return any(len(o["U"]) >= 3 for o in out["calls"])

    def stats(self, case, out, acc):
        acc["calls_on_one_object"] = acc.get("calls_on_one_object", 0) + len(out["calls"])
        acc["exceptions"] = acc.get("exceptions", 0) + sum(1 for o in out["calls"] if "err" in o["run"])


if __name__ == "__main__":
    main("C05", [Exact(), Ilp(), Cplex(), Reuse()], gen_targets=["step6"],
         level_note="see MANIFEST",
         rule="witnesses of F1 / F2 / F6; 3-ranking datasets over {0,1,2}; layered and random datasets up to 6 elements, schemes biased to "
              "B5 != T5; four configurations per dataset (selector optimize on/off, free-solver model one / all); the optimum is recomputed "
              "in Coq by the verified brute force. non-trivial = >= 3 elements")
