"""C11 — KwikSort's result is pivot-independent when pairwise preferences cohere."""
import itertools
import numpy as np
from common import *
import gen
from corankco.dataset import Dataset
from corankco.scoringscheme import ScoringScheme
import corankco.algorithms.kwiksort.kwiksortrandom as kq
from corankco.algorithms.kwiksort.kwiksortrandom import KwikSortRandom


class Chooser:
    def __init__(self, script):
        self.script = list(script)
        self.i = 0
        self.first = None
        self.steps = []

    def __call__(self, elements):
        if self.first is None:
            self.first = [e.value for e in elements]
        k = self.script[self.i] if self.i < len(self.script) else 0
        self.i += 1
        pivot = elements[k % len(elements)]
        self.steps.append((pivot.value, [e.value for e in elements]))      # the recursion step: its pivot, the elements to place
        return pivot


def run_kwik(D, s, script, season=False):
    ds = Dataset.from_raw_list([[set(b) for b in r] for r in D])
    sc = ScoringScheme(s)
    if gen.CURRENT.get("scribbled"):
        from algos import scribble
        scribble(ds)
    ch = Chooser(script)
    alg = KwikSortRandom()
    if season:      # the object has served before (with pivots drawn by the real generator: the script is for the judged call only)
        from algos import seasoned
        seasoned(alg, D, s)
    old = kq.choice
    kq.choice = ch
    try:
        cons = alg.compute_consensus_rankings(ds, sc, True)
    finally:
        kq.choice = old
    assert len(cons.consensus_rankings) == 1
    return ds, ch, [[e.value for e in b] for b in cons.consensus_rankings[0].buckets]


class Kwik(Suite):
    scribbled_rate = 0.1
    seasoned_rate = 0.1     # share of the cases run on algorithm objects that have served before (algos.seasoned)
    name = "kwik"
    imports = ["Scheme", "Rank", "KwikSort", "Judge.JC11"]
    judge = "judge_kwik"
    show = "show_kwik"
    ctype = "scheme * dataset * list nat * list nat * ranking * option ranking * list (nat * list nat)"

    def gen(self, tier, rng):
        cases = []
        # all pivot scripts for universes of <= 4 elements
        nsmall = 12 if tier == "quick" else 80
        for _ in range(nsmall):
            n = rng.randint(2, 4)
            D = gen.random_dataset(rng, n, 4, names=list(range(n)))
            s = gen.pick_scheme(rng)
            univ = sorted({e for r in D for b in r for e in b})
            k = len(univ)
            for script in itertools.product(range(k), repeat=k):
                cases.append({"s": s, "D": D, "script": list(script)})
        # identical rankings / coherent datasets: every script must give the ranking back
        for _ in range(15 if tier == "quick" else 150):
            n = rng.randint(2, 6)
            R = gen.random_ranking(rng, list(range(n)), 1.0, rng.choice([1.0, 0.6, 0.3]))
            m = rng.randint(1, 4)
            s = gen.pick_scheme(rng)
            for _ in range(6):
                cases.append({"s": s, "D": [R] * m, "script": [rng.randrange(n) for _ in range(n)], "target": R})
        # twins: two elements that are tied wherever they appear and absent together from at least one ranking - their position rows
        # are identical although tying them is NOT the cheapest placement when T[5] > B[5] (extended measure, generic)
        for _ in range(40 if tier == "quick" else 500):
            n = rng.randint(4, 6)
            names = list(range(n))
            rng.shuffle(names)
            x, y = names[0], names[1]
            others = names[2:]
            D = []
            for _ in range(rng.randint(2, 4)):
                if rng.random() < 0.5:
                    r = gen.random_ranking(rng, others, 0.8, 0.7) or [[others[0]]]          # both absent
                else:
                    r = gen.random_ranking(rng, others, 0.8, 0.7)
                    r.insert(rng.randint(0, len(r)), [x, y])
                D.append(r)
            D.append(gen.random_ranking(rng, others, 0.9, 0.7) or [[others[0]]])
            script = [rng.randrange(n) for _ in range(n)]
            script[0] = rng.choice([0, 1, rng.randrange(n)])
            cases.append({"s": rng.choice([gen.EXTENDED, gen.EXTENDED, gen.GENERIC]), "D": D, "script": script})
        # random larger
        for _ in range(150 if tier == "quick" else 3000):
            D = gen.random_dataset(rng, 8, 6)
            n = len({e for r in D for b in r for e in b})
            cases.append({"s": gen.pick_scheme(rng), "D": D, "script": [rng.randrange(n) for _ in range(n)]})
        return cases

    def run(self, case):
        ds, ch, cons = run_kwik(case["D"], case["s"], case["script"], bool(case.get("seasoned")))
        out = {"D": gen.observe(ds), "U0": ch.first, "cons": cons, "calls": ch.i, "steps": ch.steps}
        if "target" in case:
            out["target"] = case["target"]
        else:
            # candidate target: the answer under the all-zero script; judged in Coq only if the preferences cohere with it
            _, _, ref = run_kwik(case["D"], case["s"], [0] * len(case["script"]), bool(case.get("seasoned")))
            out["target"] = ref
        return out

    def term(self, case, out):
        return (f"({scheme_term(case['s'])}, {dataset_term(out['D'])}, {natlist(out['U0'])}, {natlist(case['script'])}, "
                f"{ranking_term(out['cons'])}, (Some {ranking_term(out['target'])}), "
                + clist([f"({nat(p)}, {natlist(els)})" for p, els in out["steps"]]) + ")")

    def nontrivial(self, case, out):
        return len(out["U0"]) >= 3

    def stats(self, case, out, acc):
        acc[f"n={len(out['U0'])}"] = acc.get(f"n={len(out['U0'])}", 0) + 1
        acc["differs_from_reference_script"] = acc.get("differs_from_reference_script", 0) + int(
            sorted(map(sorted, out["cons"])) != sorted(map(sorted, out["target"])) or [sorted(b) for b in out["cons"]] != [sorted(b) for b in out["target"]])


class Where(Suite):
    name = "where"
    imports = ["Scheme", "Rank", "KwikSort", "Judge.JC11"]
    judge = "judge_where"

    def gen(self, tier, rng):
        cases = []
        prs = gen.all_partial_rankings([0, 1])
        # all order types of the pair over up to 3 rankings
        combos = list(itertools.product(prs, repeat=2)) + (list(itertools.product(prs, repeat=3)) if tier == "thorough" else [])
        for D in combos:
            if any(D):
                for s in (gen.GENERIC, gen.UNIFYING, gen.INDUCED):
                    cases.append({"s": s, "D": list(D) + [[[0], [1]]], "p": 0, "o": 1})
        for _ in range(400 if tier == "quick" else 5000):
            D = gen.random_dataset(rng, 6, 6)
            univ = sorted({e for r in D for b in r for e in b})
            if len(univ) < 2:
                continue
            p, o = rng.sample(univ, 2)
            cases.append({"s": gen.pick_scheme(rng), "D": D, "p": p, "o": o})
        # penalties of very different magnitudes (exactly representable): the three costs of a pair are huge and differ by one unit
        for _ in range(120 if tier == "quick" else 1500):
            D = gen.random_dataset(rng, 5, 6)
            univ = sorted({e for r in D for b in r for e in b})
            if len(univ) < 2:
                continue
            p, o = rng.sample(univ, 2)
            big = rng.choice([1e6, 2.0 ** 22, 1e7])
            s = rng.choice([gen.big_scheme(rng), [[0.0, big, big, 0.0, 1.0, 0.0], [big, big, 0.0, 1.0, 1.0, 0.0]],
                            [[0.0, big, big + 1, 0.0, big, 1.0], [big + 1, big + 1, 0.0, 1.0, 1.0, 0.0]]])
            cases.append({"s": s, "D": D, "p": p, "o": o})
        return cases

    def run(self, case):
        ds = Dataset.from_raw_list([[set(b) for b in r] for r in case["D"]])
        P = ds.get_positions()
        ids = {e.value: i for e, i in ds.mapping_elem_id.items()}
        w = KwikSortRandom()._where_should_it_be(P[ids[case["p"]]], P[ids[case["o"]]], np.asarray(ScoringScheme(case["s"]).penalty_vectors))
        return {"D": gen.observe(ds), "w": int(w)}

    def term(self, case, out):
        return f"({scheme_term(case['s'])}, {dataset_term(out['D'])}, {nat(case['p'])}, {nat(case['o'])}, {z(out['w'])})"

    def stats(self, case, out, acc):
        acc[f"w={out['w']}"] = acc.get(f"w={out['w']}", 0) + 1


if __name__ == "__main__":
    main("C11", [Where(), Kwik()], gen_targets=['where'],
         level_note="random.choice is an input of the model (scripted in the correspondence through the module attribute); "
                    "list(dataset.universe) is taken in the order the interpreter iterates it",
         rule="where: every pair of partial rankings over two elements (+ one fixed ranking) x 3 schemes, random pairs in random datasets; "
              "kwik: ALL pivot scripts (n^n) for random datasets over 2-4 elements, identical-ranking datasets under random scripts with the "
              "ranking as target, random datasets <= 8 elements with the answer of the all-zero script as candidate target (judged only when "
              "the preferences cohere with it). non-trivial = >= 3 elements")
