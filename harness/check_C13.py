"""C13 — Copeland ranks by pairwise victories and reports consistent features."""
from common import *
import gen
from corankco.dataset import Dataset
from corankco.scoringscheme import ScoringScheme
from corankco.algorithms.copeland.copeland import CopelandMethod


class Copeland(Suite):
    scribbled_rate, bench_rate = 0.1, 0.12
    seasoned_rate = 0.12     # share of the cases run on algorithm objects that have served before (algos.seasoned)
    name = "copeland"
    imports = ["Scheme", "Rank", "Judge.JC13"]
    judge = "judge_copeland"
    show = "show_copeland"

    def gen(self, tier, rng):
        cases = []
        prs = gen.all_partial_rankings([0, 1, 2])
        if tier == "thorough":
            for r1 in prs:
                for r2 in prs:
                    if r1 or r2:
                        cases.append({"s": gen.GENERIC, "D": [r1, r2]})
        else:
            for r1 in prs:
                if r1:
                    cases.append({"s": gen.GENERIC, "D": [r1, rng.choice(prs)]})
        n = 500 if tier == "quick" else 6000
        for _ in range(n):
            cases.append({"s": gen.pick_scheme(rng), "D": gen.random_dataset(rng, 8, 6)})
        # penalties of very different magnitudes (all exactly representable): the two costs of a pair may be huge and differ by one unit -
        # a genuine victory, however small the relative difference
        for _ in range(80 if tier == "quick" else 800):
            big = rng.choice([1e6, 1e6, 2.0 ** 22, 1e7])
            s = rng.choice([[[0.0, 1.0, 1.0, 0.0, big, 0.0], [1.0, 1.0, 0.0, 1.0, 1.0, 0.0]],
                            [[0.0, 1.0, 1.0, big, big, big], [1.0, 1.0, 0.0, big, big, 0.0]],
                            [[0.0, 1.0, big, 0.0, 1.0, 1.0], [big, big, 0.0, 1.0, 1.0, 0.0]]])
            cases.append({"s": s, "D": gen.random_dataset(rng, 6, 5)})
        return cases

    def run(self, case):
        ds = Dataset.from_raw_list([[set(b) for b in r] for r in case["D"]])
        sc = ScoringScheme(case["s"])
        alg = CopelandMethod()
        if case.get("scribbled"):
            from algos import scribble
            scribble(ds)
        if case.get("seasoned"):
            from algos import seasoned
            seasoned(alg, case["D"], case["s"])
        # bench_mode=True must give the same consensus and, when it reports the features at all, the same features
        cons = alg.compute_consensus_rankings(ds, sc, True, True) if case.get("bench") else alg.compute_consensus_rankings(ds, sc, True)
        if case.get("bench") and not (hasattr(cons, "copeland_scores") and hasattr(cons, "copeland_victories")):
            plain = alg.compute_consensus_rankings(ds, sc, True)
            assert [[e.value for e in b] for b in plain.consensus_rankings[0].buckets] == [[e.value for e in b] for b in cons.consensus_rankings[0].buckets]
            cons = plain
        U = gen.id_order(ds)
        scores = cons.copeland_scores
        vic = cons.copeland_victories
        bye = {e.value: (scores[e], vic[e]) for e in scores}
        return {"listing": gen.observe(ds), "U": U, "n_cons": len(cons.consensus_rankings),
                "cons": [[e.value for e in b] for b in cons.consensus_rankings[0].buckets],
                "scores": [to_units(bye[x][0]) for x in U],
                "vic": [[int(v) for v in bye[x][1]] for x in U],
                "keys_ok": sorted(e.value for e in scores) == sorted(U) and sorted(e.value for e in vic) == sorted(U)}

    def term(self, case, out):
        assert out["n_cons"] == 1 and out["keys_ok"]
        vic = clist(["(" + ", ".join(z(v) for v in t) + ")" for t in out["vic"]])
        return (f"(mkC13 {scheme_term(case['s'])} {dataset_term(out['listing'])} {natlist(out['U'])} "
                f"{ranking_term(out['cons'])} {zlist(out['scores'])} {vic})")

    def nontrivial(self, case, out):
        return len(out["U"]) >= 3

    def stats(self, case, out, acc):
        acc[f"n={len(out['U'])}"] = acc.get(f"n={len(out['U'])}", 0) + 1
        acc["has_equalities"] = acc.get("has_equalities", 0) + int(any(t[1] > 0 for t in out["vic"]))
        acc["has_tied_buckets"] = acc.get("has_tied_buckets", 0) + int(any(len(b) > 1 for b in out["cons"]))


if __name__ == "__main__":
    main("C13", [Copeland()], gen_targets=['copeland', 'step6'],
         level_note="theorems for all tables / datasets / schemes; numpy argsort's order among equal scores is irrelevant because equal "
                    "scores share a bucket (proved: grouped)",
         rule="datasets of two partial rankings over {0,1,2} under the generic scheme (thorough: all 675 pairs) + random datasets <= 8 elements "
              "x <= 6 rankings, schemes from the valid grid; consensus, copeland_scores and copeland_victories compared with the model and "
              "checked against the definition of the costs. non-trivial = at least 3 elements")
