"""C17 — dataset equality means same multiset of rankings, nothing else."""
import copy
import os
import json
from common import *
import gen
from algos import give_a_past, random_past
from snap import *
from corankco.dataset import Dataset
from corankco.ranking import Ranking

POOLS = [[0, 8, 16, 24, 32, 1], [1, 2, 3, 4, 5, 6], ["a", "b", "c", "d", "e", "f"], ["a b", "ab", "c", "d", "e e", "ee"],
         [64, 128, 192, 3, 11, 19],
         # distinct integers with EQUAL hashes in CPython: hash(-1) == hash(-2), hash(n) == hash(n mod (2^61 - 1))
         [-1, -2, 0, 2 ** 61 - 1, 1, 2 ** 61], [-2, -1, 2 ** 61 - 1, 0, 2 ** 61 + 1, 2]]


def ordered_set(items):
    """a set built by inserting in the given order (iteration order may depend on it when hashes collide)"""
    s = set()
    for x in items:
        s.add(x)
    return s


def build(D, name):
    ds = Dataset.from_raw_list([[ordered_set(b) for b in r] for r in D], name=name)
    return ds


class Eq(Suite):
    name = "eq"
    imports = ["Parser", "DatasetModel", "Judge.JC16"]
    judge = "judge_eq"

    def gen(self, tier, rng):
        cases = []
        for _ in range(500 if tier == "quick" else 6000):
            pool = rng.choice(POOLS)
            n = rng.randint(1, 6)
            names = pool[:n]
            m = rng.randint(1, 4)
            A = [gen.random_ranking(rng, names, rng.choice([1.0, 0.7, 0.4]), rng.choice([0.8, 0.5, 0.2])) for _ in range(m)]
            if not any(A):
                A[0] = [[names[0]]]
            B = [[list(b) for b in r] for r in A]
            kind = rng.choice(["same", "permuted", "reinserted", "duplicated", "moved", "multiplicity", "other", "bucket_order",
                               "resplit", "resplit", "swapped_names"])
            if kind == "permuted":
                rng.shuffle(B)
            elif kind == "reinserted":
                B = [[list(reversed(b)) for b in r] for r in B]
                rng.shuffle(B)
            elif kind == "duplicated":
                k = rng.randrange(len(B))
                B = B + [B[k]]
                if rng.random() < 0.5:
                    A = A + [[list(reversed(b)) for b in A[k]]]
            elif kind == "moved":
                cand = [(i, j) for i, r in enumerate(B) for j, b in enumerate(r) if len(r) >= 2 or len(b) >= 2]
                if cand:
                    i, j = rng.choice(cand)
                    r = B[i]
                    x = r[j].pop(rng.randrange(len(r[j])))
                    if not r[j]:
                        r.pop(j)
                    if r and rng.random() < 0.5:
                        rng.choice(r).append(x)
                    else:
                        r.insert(rng.randrange(len(r) + 1), [x])
            elif kind == "multiplicity":
                if len(B) > 1 and rng.random() < 0.5:
                    B.pop(rng.randrange(len(B)))
                else:
                    B.append(B[rng.randrange(len(B))])
            elif kind == "resplit":
                # same number of rankings, same distinct rankings, multiplicities split differently: [a,a,b] vs [a,b,b]
                distinct = []
                for r in A:
                    if r and r not in distinct:
                        distinct.append(r)
                if len(distinct) < 2:
                    extra = gen.random_ranking(rng, names, 1.0, 0.5) or [[names[0]]]
                    distinct = (distinct or [[[names[0]]]]) + [extra]
                a, b = distinct[0], distinct[1]
                k = rng.randint(1, 2)
                A = [a] * (k + 1) + [b] * 1 + [r for r in distinct[2:]]
                B = [a] * 1 + [b] * (k + 1) + [r for r in distinct[2:]]
                B = [[list(x) for x in r] for r in B]
                rng.shuffle(B)
            elif kind == "swapped_names":
                # the same rankings with two names exchanged everywhere (the first two of the pool: equal hashes in the colliding pools)
                x, y = pool[0], pool[1]
                B = [[[y if e == x else x if e == y else e for e in bk] for bk in r] for r in B]
                rng.shuffle(B)
            elif kind == "other":
                B = [gen.random_ranking(rng, names, 1.0, 0.5) for _ in range(m)]
                if not any(B):
                    B[0] = [[names[0]]]
            elif kind == "bucket_order":
                r = rng.choice(B)
                if len(r) >= 2:
                    i, j = rng.sample(range(len(r)), 2)
                    r[i], r[j] = r[j], r[i]
            if not any(B):
                B = [[[names[0]]]]
            cases.append({"A": A, "B": B, "kind": kind})
        # different datasets that agree on every per-element / per-position summary: the heads (over X) and the tails (over Y) of two
        # rankings are exchanged - each element keeps the same multiset of positions, each position the same multiset of buckets, the
        # sizes, the universe and the flags are the same; only the rankings themselves differ
        for _ in range(120 if tier == "quick" else 1500):
            pool = rng.choice(POOLS)
            n = rng.randint(4, 6)
            names = pool[:n]
            rng.shuffle(names)
            cut = rng.randint(2, n - 2)
            X, Y = names[:cut], names[cut:]
            tied = rng.random() < 0.4
            def arrange(els):
                els = list(els)
                rng.shuffle(els)
                if tied and len(els) >= 3 and rng.random() < 0.5:
                    return [els[:2]] + [[e] for e in els[2:]]
                return [[e] for e in els]
            h1, h2, t1, t2 = arrange(X), arrange(X), arrange(Y), arrange(Y)
            extra = [arrange(names) for _ in range(rng.randint(0, 2))]
            A = [h1 + t1, h2 + t2] + extra
            B = [h1 + t2, h2 + t1] + [[list(b) for b in r] for r in extra]
            rng.shuffle(B)
            cases.append({"A": A, "B": B, "kind": "exchanged_tails"})
        # datasets that crossed a process boundary (pickled by an interpreter with another hash seed)
        for c in [dict(c) for c in rng.sample([c for c in cases if c["kind"] in ("same", "permuted", "reinserted", "moved", "resplit")], 12 if tier == "quick" else 100)]:
            c["pickled"] = True
            c["kind"] = c["kind"] + "+pickled"
            cases.append(c)
        # datasets with a past: already compared (and read in every way), then modified in place; what is judged is == on the datasets
        # as they are afterwards (their rankings are observed after the modification)
        for c in [dict(c) for c in rng.sample(cases, 80 if tier == "quick" else 800)]:
            c["pastA"] = random_past(rng, c["A"])
            if rng.random() < 0.5:
                c["pastB"] = c["pastA"] if rng.random() < 0.6 else random_past(rng, c["B"])
            c["kind"] = c["kind"] + "+past"
            cases.append(c)
        return cases

    def run(self, case):
        a = build(case["A"], "left")
        b = build(case["B"], "right name")
        if case.get("pickled"):
            # the left dataset comes from ANOTHER interpreter process (other hash seed), through pickle: whatever its objects memorised
            # about hashes there does not hold here
            import pickle, subprocess, sys
            code = ("import pickle, sys, json\nfrom corankco.dataset import Dataset\n"
                    "D = json.loads(sys.argv[1])\n"
                    "d = Dataset.from_raw_list([[set(b) for b in r] for r in D], name='left')\n"
                    "sys.stdout.buffer.write(pickle.dumps(d))\n")
            env = dict(os.environ, PYTHONHASHSEED=str((int(os.environ.get("PYTHONHASHSEED", "1")) + 12345) % 4000000000 + 1))
            p = subprocess.run([sys.executable, "-c", code, json.dumps(case["A"])], env=env, capture_output=True, timeout=120)
            a = pickle.loads(p.stdout)
        if case.get("pastA") or case.get("pastB"):
            a == b, b == a          # compared once before anything changes
        if case.get("pastA"):
            give_a_past(a, case["pastA"])
        if case.get("pastB"):
            give_a_past(b, case["pastB"])
        return {"a": [listing(r) for r in a.rankings], "b": [listing(r) for r in b.rankings],
                "ab": bool(a == b), "ba": bool(b == a), "aa": bool(a == copy.deepcopy(a)), "ne": bool(a != b)}

    def term(self, case, out):
        # reflexivity (== with a deep copy) and coherence of != with == are folded into the second boolean
        sane = out["aa"] and (out["ne"] != out["ab"])
        ba = out["ba"] if sane else (not out["ab"])
        return f"({nrankings_term(out['a'])}, {nrankings_term(out['b'])}, {cbool(out['ab'])}, {cbool(ba)})"

    def nontrivial(self, case, out):
        return case["kind"] != "same"

    def known(self, case, out):
        return "F11"

    def stats(self, case, out, acc):
        k = case["kind"] + (":equal" if out["ab"] else ":different")
        acc[k] = acc.get(k, 0) + 1
        acc["listing_differs_but_sets_equal"] = acc.get("listing_differs_but_sets_equal", 0) + int(
            out["a"] != out["b"] and [[sorted(map(str, b)) for b in r] for r in out["a"]] == [[sorted(map(str, b)) for b in r] for r in out["b"]])


class RankingEq(Suite):
    """Ranking.__eq__ itself (the relation dataset equality must be consistent with): same buckets as sets in the same order; the
    rankings may contain EMPTY buckets (accepted by the constructor), which leave no trace in the positions"""
    name = "ranking_eq"
    imports = ["Parser", "DatasetModel", "Judge.JC16"]
    judge = "judge_req"
    ctype = "nranking * nranking * bool * bool"

    def gen(self, tier, rng):
        cases = []
        for _ in range(300 if tier == "quick" else 3000):
            names = rng.choice(POOLS)[:rng.randint(1, 5)]
            a = gen.random_ranking(rng, names, rng.choice([1.0, 0.7]), rng.choice([0.8, 0.5]))
            b = [list(x) for x in a]
            k = rng.choice(["same", "reinserted", "empty_mid", "empty_end", "empty_front", "swap", "merge", "other", "both_empty"])
            if k == "reinserted":
                b = [list(reversed(x)) for x in b]
            elif k == "empty_mid" and b:
                b.insert(rng.randint(0, len(b)), [])
            elif k == "empty_end":
                b.append([])
            elif k == "empty_front":
                b.insert(0, [])
            elif k == "swap" and len(b) >= 2:
                i, j = rng.sample(range(len(b)), 2)
                b[i], b[j] = b[j], b[i]
            elif k == "merge" and len(b) >= 2:
                i = rng.randrange(len(b) - 1)
                b[i] = b[i] + b.pop(i + 1)
            elif k == "other":
                b = gen.random_ranking(rng, names, 1.0, 0.5)
            elif k == "both_empty":
                pos = rng.randint(0, len(b))
                a = [list(x) for x in a]
                a.insert(pos, [])
                b.insert(pos if rng.random() < 0.6 else rng.randint(0, len(b)), [])
            cases.append({"a": a, "b": b, "kind": k})
        return cases

    def run(self, case):
        ra = Ranking([set(x) for x in case["a"]])
        rb = Ranking([set(x) for x in case["b"]])
        return {"a": listing(ra), "b": listing(rb), "ab": bool(ra == rb), "ba": bool(rb == ra), "ne": bool(ra != rb)}

    def term(self, case, out):
        ba = out["ba"] if (out["ne"] != out["ab"]) else (not out["ab"])
        return f"({nranking_term(out['a'])}, {nranking_term(out['b'])}, {cbool(out['ab'])}, {cbool(ba)})"

    def nontrivial(self, case, out):
        return case["kind"] != "same"

    def stats(self, case, out, acc):
        k = case["kind"] + (":equal" if out["ab"] else ":different")
        acc[k] = acc.get(k, 0) + 1


if __name__ == "__main__":
    main("C17", [Eq(), RankingEq()],
         level_note="equality is judged on the listings of the two datasets as the interpreter iterates their buckets; the theorems show that "
                    "the model's verdict does not depend on those listings",
         rule="pairs (A, B): B is A unchanged / with rankings permuted / with bucket members re-inserted in reverse order (names 0,8,16,24,... "
              "and 64,128,192 collide in small hash tables) / with a duplicated ranking / with one element moved / with one multiplicity "
              "changed / same length and same distinct rankings with the multiplicities split differently / an unrelated dataset / two buckets swapped; names 'a b' vs 'ab' included. == in both directions, != and == with a deep "
              "copy are folded into the two booleans handed to Coq. non-trivial = kind other than 'same'")
