"""Helpers to run the library's algorithms and describe datasets for the optimisation properties."""
import random
from common import *
import gen
from corankco.dataset import Dataset
from corankco.ranking import Ranking
from corankco.scoringscheme import ScoringScheme


def layered_dataset(rng, nmax=6, mmax=5):
    """datasets whose graph of elements has several components: elements are split in layers that most
    rankings order the same way; some rankings miss whole layers (sparse), some break the layering"""
    n = rng.randint(2, nmax)
    names = rng.choice([list(range(n)), rng.sample(range(20), n)])
    k = rng.randint(1, min(3, n))
    cuts = sorted(rng.sample(range(1, n), k - 1)) if k > 1 else []
    layers = [names[a:b] for a, b in zip([0] + cuts, cuts + [n])]
    m = rng.randint(1, mmax)
    D = []
    for _ in range(m):
        r = []
        keep = [l for l in layers if rng.random() < 0.75] or [rng.choice(layers)]
        if rng.random() < 0.2:
            rng.shuffle(keep)
        for layer in keep:
            sub = [e for e in layer if rng.random() < 0.85]
            r.extend(gen.random_ranking(rng, sub, 1.0, rng.choice([1.0, 0.7, 0.4])))
        D.append(r)
    if rng.random() < 0.15:
        D.append([])
    if not any(D):
        D[0] = [[names[0]]]
    return D


def sparse_component_dataset(rng, nmax=6):
    """a component of 3-4 elements on which the rankings disagree (one SCC, not all-tieable), one or two
    other elements ranked consistently before it, and SEVERAL rankings that rank none of the component's
    elements (they only contribute 'both non-ranked' terms to its sub-problem)"""
    k = rng.randint(3, min(4, nmax - 1))
    comp = list(range(1, k + 1))
    others = [k + 1 + i for i in range(rng.randint(1, max(1, min(2, nmax - k))))]
    D = []
    for _ in range(rng.randint(2, 4)):
        perm = comp[:]
        rng.shuffle(perm)
        r = [[o] for o in others if rng.random() < 0.8] + random_ranking_buckets(rng, perm)
        D.append(r)
    for _ in range(rng.randint(2, 4)):          # rankings missing the whole component
        D.append([[o] for o in others if rng.random() < 0.9] if rng.random() < 0.8 else [])
    rng.shuffle(D)
    if not any(D):
        D[0] = [[comp[0]]]
    return D


def isolated_member_dataset(rng):
    """a component A -> C -> E -> A that is not all-tieable although E is NEVER ranked together with A or C: the arcs C -> E and
    E -> A come only from the one-ranked / one-missing penalties (unifying family). x rankings [.., A, C], y rankings [.., C],
    z rankings [.., E] with x < z < x + y; up to two other elements ranked before"""
    names = rng.sample(range(1, 9), 5)
    A, C, E = names[:3]
    others = names[3:3 + rng.randint(0, 2)]
    x = rng.randint(1, 2)
    z = x + rng.randint(1, 2)
    y = z - x + rng.randint(1, 2)
    pre = lambda: [[o] for o in others if rng.random() < 0.9]
    D = [pre() + [[A], [C]] for _ in range(x)] + [pre() + [[C]] for _ in range(y)] + [pre() + [[E]] for _ in range(z)]
    rng.shuffle(D)
    return D


def two_cycles_dataset(rng):
    """two Condorcet cycles of different sizes (4 and 3 elements, in either order) one after the other in every ranking: two
    components that cannot be all tied, so that a bound between their sizes delegates exactly one of them"""
    names = rng.sample(range(1, 10), 7)
    big, small = names[:4], names[4:]
    first, second = (big, small) if rng.random() < 0.5 else (small, big)
    D = []
    for i in range(12):
        a = first[i % len(first):] + first[:i % len(first)]
        b = second[i % len(second):] + second[:i % len(second)]
        D.append([[e] for e in a + b])
    rng.shuffle(D)
    return D


def random_ranking_buckets(rng, ordered):
    r = []
    for e in ordered:
        if r and rng.random() < 0.35:
            r[-1].append(e)
        else:
            r.append([e])
    return r


def cyclic_dataset(rng, nmax=5):
    """preference cycles: rotations of a permutation (Condorcet cycle), optionally with a fully tied ranking, a partial
    ranking or a duplicate: one strongly connected component of >= 3 elements whose optimum ties part of the cycle
    for tie costs in a narrow band"""
    n = rng.randint(3, nmax)
    base = list(range(1, n + 1))
    rng.shuffle(base)
    rots = [base[i:] + base[:i] for i in range(n)]
    D = [[[e] for e in rot] for rot in rng.sample(rots, rng.randint(2, n))]
    if rng.random() < 0.5:
        D.append([base[:]])
    if rng.random() < 0.4:
        D.append(gen.random_ranking(rng, base, 0.6, 0.5))
    if rng.random() < 0.3:
        D.append([list(b) for b in D[0]])
    rng.shuffle(D)
    return D


def chain_tie_dataset(rng, tries=400):
    """a dataset + scheme in which three elements of one component can be tied two by two ALONG the chain id0-id1-id2 (tying costs no more
    than either order) but not all together (id0 and id2 are strictly cheaper ordered).  Found by rejection sampling; the filter reads the
    library's own cost table (an untrusted choice of inputs: the verdict on each case is the judge's)"""
    from corankco.algorithms.pairwisebasedalgorithm import PairwiseBasedAlgorithm
    for _ in range(tries):
        n = rng.randint(3, 4)
        names = list(range(n))
        D = [gen.random_ranking(rng, names, rng.choice([1.0, 1.0, 0.8]), rng.choice([0.7, 0.5, 0.3])) for _ in range(rng.randint(3, 6))]
        if not any(D):
            continue
        s = p_scheme(rng) if rng.random() < 0.7 else gen.GENERIC
        try:
            ds = Dataset.from_raw_list([[set(b) for b in r] for r in D])
            if ds.nb_elements < 3:
                continue
            M = PairwiseBasedAlgorithm.pairwise_cost_matrix(ds.get_positions(), ScoringScheme(s))
        except Exception:
            continue
        can = lambda i, j: M[i][j][2] <= min(M[i][j][0], M[i][j][1])
        if can(0, 1) and can(1, 2) and not can(0, 2):
            return D, s
    return [[[0, 1], [2]], [[0], [1, 2]], [[0, 1], [2]], [[0], [1, 2]]], gen.UNIFYING_HALF


def p_scheme(rng):
    p = rng.choice([0.375, 0.375, 0.5, 0.5, 0.75, 1.0, 0.25])
    fam = rng.choice(["unifying", "pseudo", "induced"])
    if fam == "unifying":
        return [[0.0, 1.0, p, 0.0, 1.0, p], [p, p, 0.0, p, p, 0.0]]
    if fam == "pseudo":
        return [[0.0, 1.0, p, 0.0, 1.0, 0.0], [p, p, 0.0, p, p, 0.0]]
    return [[0.0, 1.0, p, 0.0, 0.0, 0.0], [p, p, 0.0, 0.0, 0.0, 0.0]]


def opt_scheme(rng):
    r = rng.random()
    if r < 0.25:
        return rng.choice([gen.UNIFYING, gen.EXTENDED, gen.UNIFYING_HALF])   # B5 != T5
    if r < 0.4:
        return rng.choice([gen.PSEUDO, gen.INDUCED, gen.INDUCED_HALF])
    if r < 0.55:
        return gen.GENERIC
    return gen.random_scheme(rng, grid=(0, 0.5, 1, 2, 3))


def give_a_past(ds, past, sc=None):
    """the dataset of a case may have a PAST: every view is read and a few algorithms are run (whatever they cache on the object is
    then in place), after which the dataset is modified IN PLACE by the public mutators. What a check judges afterwards is the
    behaviour on the dataset as it is now (always observed after this call).
    past = {"remove": [names], "rate": float or None, "remove_empty": bool}"""
    import copy as _copy
    from corankco.algorithms.borda.borda import BordaCount
    from corankco.algorithms.copeland.copeland import CopelandMethod
    from corankco.algorithms.pickaperm.pickaperm import PickAPerm
    from corankco.algorithms.bioconsert.bioconsert import BioConsert
    from corankco.partitioning.ordered_partition import OrderedPartition
    touch = [lambda: ds.get_positions(), lambda: ds.get_bucket_ids(), lambda: ds.unified_rankings(), lambda: ds.unified_dataset(),
             lambda: ds == _copy.deepcopy(ds), lambda: ds != Dataset([]), lambda: ds.description(), lambda: str(ds), lambda: repr(ds),
             lambda: (ds.is_complete, ds.without_ties, ds.nb_elements, ds.nb_rankings, ds.universe, ds.mapping_elem_id, ds.mapping_id_elem),
             lambda: [(r.positions, r.domain, r.nb_elements, len(r)) for r in ds.rankings]]
    if sc is not None:
        for k in (2.0, 0.5):      # ... also under proportional schemes, on this very dataset object (a memo kept ON the dataset and keyed on
            try:                  # anything coarser than the penalties is then stale for the judged call)
                s2 = ScoringScheme([[x * k for x in sc.penalty_vectors[0]], [x * k for x in sc.penalty_vectors[1]]])
                touch += [lambda s2=s2: BioConsert().compute_consensus_rankings(ds, s2, True).kemeny_score,
                          lambda s2=s2: CopelandMethod().compute_consensus_rankings(ds, s2, True).kemeny_score]
            except Exception:
                pass
        touch += [lambda: BordaCount().compute_consensus_rankings(ds, sc, True), lambda: CopelandMethod().compute_consensus_rankings(ds, sc, True),
                  lambda: PickAPerm().compute_consensus_rankings(ds, sc, False), lambda: BioConsert().compute_consensus_rankings(ds, sc, False),
                  lambda: OrderedPartition.parfront_partition(ds, sc)]
    for f in touch:
        try:
            f()
        except Exception:
            pass
    scribble(ds)
    if past.get("remove"):
        try:
            ds.remove_elements({e for e in ds.universe if e.value in past["remove"]})
        except Exception:
            pass
    if past.get("rate") is not None:
        try:
            ds.remove_elements_rate_presence_lower_than(past["rate"])
        except Exception:
            pass
    if past.get("remove_empty"):
        try:
            ds.remove_empty_rankings()
        except Exception:
            pass
    return ds


def scribble(ds):
    """a caller did what it liked with the objects the read accessors GAVE it: on the pinned tree `universe`, `Ranking.domain`,
    `get_positions`, `get_bucket_ids`, `unified_rankings` and `unified_dataset` all build a fresh object at each call (the accessors
    that hand out internal state - rankings, buckets, positions dict, the two id maps - are not touched), so emptying or overwriting what
    they returned cannot change the dataset; it does when a later version hands out a cached object by reference"""
    try:
        u = ds.universe
        u.clear()
        for r in ds.rankings:
            d = r.domain
            d.clear()
        p = ds.get_positions()
        p[...] = 7
        b = ds.get_bucket_ids()
        b[...] = 0
        ur = ds.unified_rankings()
        for r in ur:
            r.buckets.clear()
            r.positions.clear()
        del ur[:]
        ud = ds.unified_dataset()
        ud.rankings.clear()
        ud.mapping_elem_id.clear()
        ud.mapping_id_elem.clear()
    except Exception:
        pass


def random_past(rng, D):
    """a past for the dataset D (never removes every element)"""
    univ = sorted({e for r in D for b in r for e in b}, key=str)
    past = {"remove": [], "rate": None, "remove_empty": False}
    k = rng.random()
    if k < 0.5 and len(univ) >= 3:
        past["remove"] = rng.sample(univ, rng.randint(1, min(2, len(univ) - 2)))
    elif k < 0.75:
        past["rate"] = rng.choice([0.3, 0.5, 0.6])
    if rng.random() < 0.5:
        past["remove_empty"] = True
    return past


def mk(D, s):
    """dataset + scheme of a case; the case context (gen.CURRENT) may rename the elements and give the dataset a past"""
    ds = Dataset.from_raw_list([[{gen.fwd(e) for e in b} for b in r] for r in D])
    sc = ScoringScheme(s)
    if gen.CURRENT.get("scale_exp") is not None:
        k = 2.0 ** gen.CURRENT["scale_exp"]
        sc = ScoringScheme([[x * k for x in s[0]], [x * k for x in s[1]]])
    if gen.CURRENT.get("_past"):
        give_a_past(ds, gen.CURRENT["_past"], sc)
    if gen.CURRENT.get("scribbled"):
        scribble(ds)
    return ds, sc


def seasoned(alg, D, s, build=None):
    """the algorithm object has served before the judged call: it computed (answers discarded, refusals ignored) a consensus of the same
    rankings under a scheme twice as expensive, of the same rankings plus the reverse of one of them under the case's scheme, and of the
    same rankings listed in the opposite order.
    An algorithm object that remembers anything about an earlier call (a memo of scores, of positions, of the scheme) shows it then."""
    build = build or (lambda raw: Dataset.from_raw_list([[{gen.fwd(e) for e in b} for b in r] for r in raw]))
    first = next((r for r in D if r), None)
    warm = [(D, [[2 * x for x in s[0]], [2 * x for x in s[1]]])]
    if first is not None:
        warm.append(([[list(b) for b in r] for r in D] + [[list(b) for b in reversed(first)]], s))
    # the same rankings listed in the opposite order, same scheme: an EQUAL dataset (equality ignores the order of the rankings) whose
    # elements are numbered differently (ids follow the first appearances) - a memo keyed on dataset equality is stale for the judged call
    warm.append(([[list(b) for b in r] for r in reversed(D)], s))
    for D2, s2 in warm:
        try:
            alg.compute_consensus_rankings(build(D2), ScoringScheme(s2), False)
        except Exception:
            pass
    return alg


def lst(r):
    return [[gen.back(e.value) for e in b] for b in r.buckets]


def groups(p):
    return [[gen.back(e.value) for e in g] for g in p]
